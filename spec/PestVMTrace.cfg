SPECIFICATION Spec
CHECK_DEADLOCK FALSE
