SPECIFICATION Spec
CONSTANTS
  MaxPos = 2
  Rules = {"a", "b"}
INVARIANT Equivalent
INVARIANT MisnamedEndRejected
CHECK_DEADLOCK FALSE
