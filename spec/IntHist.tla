------------------------------ MODULE IntHist ------------------------------
(* Spec -> code generator for the SnapshottingInt part of C09 (see StackHist). *)
EXTENDS SnapInt, TLC, Json

CONSTANTS N

VARIABLES ops, exps
hvars == <<val, saved, ops, exps>>

HInit == IInit /\ ops = <<>> /\ exps = <<>>
Rec(name) == Len(ops) < N /\ ops' = Append(ops, name) /\ exps' = Append(exps, val')

HNext == \/ (Inc /\ Rec("inc")) \/ (Dec /\ Rec("dec")) \/ (Zero /\ Rec("zero"))
         \/ (ISnapshot /\ Rec("snapshot")) \/ (IRestore /\ Rec("restore")) \/ (IDrop /\ Rec("drop"))
HSpec == HInit /\ [][HNext]_hvars
Emit == Len(ops) = N => PrintT(ToJson([ops |-> ops, exp |-> exps]))
=============================================================================
