------------------------------ MODULE IntHist ------------------------------
(* Spec -> code generator for the SnapshottingInt part of C09 (see StackHist). *)
EXTENDS SnapInt, TLC, Json

CONSTANTS N

VARIABLES ops, exps, v0     \* v0: the value the counter was constructed with (SnapshottingInt(value); the default is 0)
hvars == <<val, saved, ops, exps, v0>>

HInit == val \in {0, 2} /\ saved = <<>> /\ v0 = val /\ ops = <<>> /\ exps = <<>>
Rec(name) == Len(ops) < N /\ ops' = Append(ops, name) /\ exps' = Append(exps, val') /\ UNCHANGED v0

HNext == \/ (Inc /\ Rec("inc")) \/ (Dec /\ Rec("dec")) \/ (Zero /\ Rec("zero"))
         \/ (ISnapshot /\ Rec("snapshot")) \/ (IRestore /\ Rec("restore")) \/ (IDrop /\ Rec("drop"))
HSpec == HInit /\ [][HNext]_hvars
Emit == Len(ops) = N => PrintT(ToJson([ops |-> ops, exp |-> exps, start |-> v0]))
=============================================================================
