---------------------------- MODULE LineColDefs ----------------------------
(***************************************************************************)
(* The definitions of C14 (see LineCol.tla): line/column of an offset, the    *)
(* boundaries of the line containing it, and the inverse.  NL is the           *)
(* line-break symbol; a text is a sequence of symbols; offsets are 0..Len.      *)
(***************************************************************************)
EXTENDS Integers, Sequences, FiniteSets

CONSTANT NL

BreaksBefore(t, p) == Cardinality({i \in 1..p : t[i] = NL})
LineStart(t, p) == LET B == {i \in 1..p : t[i] = NL}
                   IN IF B = {} THEN 0 ELSE CHOOSE i \in B : \A j \in B : j <= i
LineEnd(t, p)   == LET B == {i \in (p + 1)..Len(t) : t[i] = NL}
                   IN IF B = {} THEN Len(t) ELSE (CHOOSE i \in B : \A j \in B : i <= j) - 1
LineCol(t, p)   == <<1 + BreaksBefore(t, p), 1 + p - LineStart(t, p)>>

\* the inverse: the offset of (line, column)
Offset(t, l, c) == CHOOSE p \in 0..Len(t) : LineCol(t, p) = <<l, c>>
=============================================================================
