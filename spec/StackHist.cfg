SPECIFICATION HSpec
CONSTANTS
  N = 6
  MaxSnaps = 6
INVARIANT Emit
CHECK_DEADLOCK FALSE
