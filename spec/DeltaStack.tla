----------------------------- MODULE DeltaStack -----------------------------
(***************************************************************************)
(* src/pest/stack.py transcribed: the delta-encoded snapshot stack.         *)
(*                                                                         *)
(*   items   : list[T]              visible contents                        *)
(*   popped  : list[T]              items popped below a snapshot's mark    *)
(*   lengths : list[(int, int)]     per live snapshot <<item_count,         *)
(*                                   remained_count>> = <<size at snapshot, *)
(*                                   low-water mark since>>                 *)
(*                                                                         *)
(* One action per method, written statement by statement after the code.   *)
(* TLC checks that this machine refines SnapStack (full copies) under the   *)
(* mapping that rebuilds every snapshot by running the code's own restore() *)
(* the required number of times (Refinement below).                        *)
(***************************************************************************)
EXTENDS Integers, Sequences, FiniteSets, TLC, SequencesExt

CONSTANTS MaxItems, MaxSnaps, MaxOps

VARIABLES items, popped, lengths, nops, nextv

vars == <<items, popped, lengths, nops, nextv>>


Front_(s)  == SubSeq(s, 1, Len(s) - 1)
Min2(a, b) == IF a < b THEN a ELSE b

Init == items = <<>> /\ popped = <<>> /\ lengths = <<>> /\ nops = 0 /\ nextv = 1

Tick == nops < MaxOps /\ nops' = nops + 1

-----------------------------------------------------------------------------
\* Pure state transformers (records [items, popped, lengths]) so that the
\* refinement mapping can run restore() repeatedly.

St(i, p, l) == [items |-> i, popped |-> p, lengths |-> l]

\* def pop(self)
PopF(s) ==
  LET size == Len(s.items)
      v    == Last(s.items)
  IN IF s.lengths # <<>> /\ size = Last(s.lengths)[2]
     THEN St(Front_(s.items), Append(s.popped, v),
             [s.lengths EXCEPT ![Len(s.lengths)] = <<@[1], @[2] - 1>>])
     ELSE St(Front_(s.items), s.popped, s.lengths)

\* def clear(self): while self.items: self.pop()
RECURSIVE ClearF(_)
ClearF(s) == IF s.items = <<>> THEN s ELSE ClearF(PopF(s))

\* def restore(self)
RestoreF(s) ==
  IF s.lengths = <<>> THEN St(<<>>, s.popped, s.lengths)
  ELSE LET ic   == Last(s.lengths)[1]
           rc   == Last(s.lengths)[2]
           kept == IF rc < Len(s.items) THEN SubSeq(s.items, 1, rc) ELSE s.items
           rw   == ic - rc
           ns   == Len(s.popped) - rw
       IN IF ic > rc
          THEN St(kept \o Reverse(SubSeq(s.popped, ns + 1, Len(s.popped))),
                  SubSeq(s.popped, 1, ns), Front_(s.lengths))
          ELSE St(kept, s.popped, Front_(s.lengths))

\* def drop_snapshot(self)
DropF(s) ==
  IF s.lengths = <<>> THEN s
  ELSE LET ic    == Last(s.lengths)[1]
           rc    == Last(s.lengths)[2]
           rest  == Front_(s.lengths)
           start == Len(s.popped) - (ic - rc)          \* 0-based index of the inner segment
       IN IF rest # <<>> /\ rc < Last(rest)[2]
          THEN \* keep what was popped below the outer snapshot's low-water mark
               LET orc == Last(rest)[2]
                   cut == ic - orc                        \* entries above the outer mark
               IN St(s.items,
                     SubSeq(s.popped, 1, start) \o SubSeq(s.popped, start + cut + 1, Len(s.popped)),
                     [rest EXCEPT ![Len(rest)] = <<@[1], rc>>])
          ELSE St(s.items, SubSeq(s.popped, 1, start), rest)

Cur == St(items, popped, lengths)
Set(s) == items' = s.items /\ popped' = s.popped /\ lengths' = s.lengths

-----------------------------------------------------------------------------
Push == /\ Tick /\ Len(items) < MaxItems
        /\ items' = Append(items, nextv) /\ nextv' = nextv + 1
        /\ UNCHANGED <<popped, lengths>>

Pop == /\ Tick /\ items # <<>> /\ Set(PopF(Cur)) /\ UNCHANGED nextv

Clear == /\ Tick /\ Set(ClearF(Cur)) /\ UNCHANGED nextv

Snapshot == /\ Tick /\ Len(lengths) < MaxSnaps
            /\ lengths' = Append(lengths, <<Len(items), Len(items)>>)
            /\ UNCHANGED <<items, popped, nextv>>

Restore == /\ Tick /\ Set(RestoreF(Cur)) /\ UNCHANGED nextv

DropSnapshot == /\ Tick /\ Set(DropF(Cur)) /\ UNCHANGED nextv

Next == Push \/ Pop \/ Clear \/ Snapshot \/ Restore \/ DropSnapshot
Spec == Init /\ [][Next]_vars

-----------------------------------------------------------------------------
\* Refinement mapping: snapshot i (1 = outermost) is what `items` becomes
\* after running restore() (n - i + 1) times.
RECURSIVE RestoreN(_, _)
RestoreN(s, k) == IF k = 0 THEN s ELSE RestoreN(RestoreF(s), k - 1)

SnapsOf == [i \in 1..Len(lengths) |-> RestoreN(Cur, Len(lengths) - i + 1).items]

Ref == INSTANCE SnapStack WITH items <- items, snaps <- SnapsOf

\* The abstract step each concrete action must be (or a stutter)
RefNext == \/ \E v \in 1..(MaxOps + 1) : Ref!Push(v)
           \/ Ref!Pop \/ Ref!Clear \/ Ref!Snapshot \/ Ref!Restore \/ Ref!DropSnapshot
Refinement == Ref!SInit /\ [][RefNext]_<<items, SnapsOf>>

\* Representation invariants of the encoding
SegLen(i) == lengths[i][1] - lengths[i][2]
RECURSIVE SumSeg(_)
SumSeg(i) == IF i = 0 THEN 0 ELSE SegLen(i) + SumSeg(i - 1)
RepInv == /\ Len(popped) = SumSeg(Len(lengths))
          /\ \A i \in 1..Len(lengths) : 0 <= lengths[i][2] /\ lengths[i][2] <= lengths[i][1]
          /\ lengths # <<>> => Last(lengths)[2] <= Len(items)
          /\ \A i \in 2..Len(lengths) : lengths[i - 1][2] <= lengths[i][1]
\* with no live snapshot the code's own assertion in restore() must hold
AssertOK == lengths = <<>> => popped = <<>>
=============================================================================
