----------------------------- MODULE DeltaStack -----------------------------
(***************************************************************************)
(* src/pest/stack.py transcribed: the delta-encoded snapshot stack.         *)
(*                                                                         *)
(*   items   : list[T]              visible contents                        *)
(*   popped  : list[T]              items popped below a snapshot's mark    *)
(*   lengths : list[(int, int)]     per live snapshot <<item_count,         *)
(*                                   remained_count>> = <<size at snapshot, *)
(*                                   low-water mark since>>                 *)
(*                                                                         *)
(* One action per method, written statement by statement after the code.   *)
(* TLC checks that this machine refines SnapStack (full copies) under the   *)
(* mapping that rebuilds every snapshot by running the code's own restore() *)
(* the required number of times (Refinement below).                        *)
(***************************************************************************)
EXTENDS DeltaOps

CONSTANTS MaxItems, MaxSnaps, MaxOps

VARIABLES items, popped, lengths, nops, nextv

vars == <<items, popped, lengths, nops, nextv>>


Min2(a, b) == IF a < b THEN a ELSE b

Init == items = <<>> /\ popped = <<>> /\ lengths = <<>> /\ nops = 0 /\ nextv = 1

Tick == nops < MaxOps /\ nops' = nops + 1

Cur == St(items, popped, lengths)
Set(s) == items' = s.items /\ popped' = s.popped /\ lengths' = s.lengths

-----------------------------------------------------------------------------
Push == /\ Tick /\ Len(items) < MaxItems
        /\ items' = Append(items, nextv) /\ nextv' = nextv + 1
        /\ UNCHANGED <<popped, lengths>>

Pop == /\ Tick /\ items # <<>> /\ Set(PopF(Cur)) /\ UNCHANGED nextv

Clear == /\ Tick /\ Set(ClearF(Cur)) /\ UNCHANGED nextv

Snapshot == /\ Tick /\ Len(lengths) < MaxSnaps
            /\ lengths' = Append(lengths, <<Len(items), Len(items)>>)
            /\ UNCHANGED <<items, popped, nextv>>

Restore == /\ Tick /\ Set(RestoreF(Cur)) /\ UNCHANGED nextv

DropSnapshot == /\ Tick /\ Set(DropF(Cur)) /\ UNCHANGED nextv

Next == Push \/ Pop \/ Clear \/ Snapshot \/ Restore \/ DropSnapshot
Spec == Init /\ [][Next]_vars

-----------------------------------------------------------------------------
\* Refinement mapping: snapshot i (1 = outermost) is what `items` becomes
\* after running restore() (n - i + 1) times.
RECURSIVE RestoreN(_, _)
RestoreN(s, k) == IF k = 0 THEN s ELSE RestoreN(RestoreF(s), k - 1)

SnapsOf == [i \in 1..Len(lengths) |-> RestoreN(Cur, Len(lengths) - i + 1).items]

Ref == INSTANCE SnapStack WITH items <- items, snaps <- SnapsOf

\* The abstract step each concrete action must be (or a stutter)
RefNext == \/ \E v \in 1..(MaxOps + 1) : Ref!Push(v)
           \/ Ref!Pop \/ Ref!Clear \/ Ref!Snapshot \/ Ref!Restore \/ Ref!DropSnapshot
Refinement == Ref!SInit /\ [][RefNext]_<<items, SnapsOf>>

\* Representation invariants of the encoding
SegLen(i) == lengths[i][1] - lengths[i][2]
RECURSIVE SumSeg(_)
SumSeg(i) == IF i = 0 THEN 0 ELSE SegLen(i) + SumSeg(i - 1)
RepInv == /\ Len(popped) = SumSeg(Len(lengths))
          /\ \A i \in 1..Len(lengths) : 0 <= lengths[i][2] /\ lengths[i][2] <= lengths[i][1]
          /\ lengths # <<>> => Last(lengths)[2] <= Len(items)
          /\ \A i \in 2..Len(lengths) : lengths[i - 1][2] <= lengths[i][1]
\* with no live snapshot the code's own assertion in restore() must hold
AssertOK == lengths = <<>> => popped = <<>>
=============================================================================
