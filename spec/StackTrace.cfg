SPECIFICATION TSpec
POSTCONDITION TraceAccepted
CHECK_DEADLOCK FALSE
