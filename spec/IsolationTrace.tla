--------------------------- MODULE IsolationTrace ---------------------------
(***************************************************************************)
(* Code -> spec validation for C15: the log of (Key, result digest) pairs of    *)
(* every Parse the harness performed - inside TLC-enumerated histories, in         *)
(* isolation (one pristine process per key), sequentially and under every            *)
(* enumerated thread schedule - must be FUNCTIONAL in Key: the result depends only     *)
(* on grammar, optimizer setting, interpreted/generated, rule, input and start.          *)
(* Event: [key |-> string, res |-> string, src |-> where it was observed]                  *)
(* State: known = the results seen so far per key.  A second, different result for           *)
(* a key is reported (PrintT <<"CONFLICT", line>>) and the trace continues.                    *)
(***************************************************************************)
EXTENDS Integers, Sequences, FiniteSets, TLC, Json, IOUtils

Trace == ndJsonDeserialize(IOEnv.TRACE_FILE)

VARIABLES l, known
vars == <<l, known>>

Init == l = 1 /\ known = <<>>     \* sequence of <<key, res>>

Lookup(k) == {i \in 1..Len(known) : known[i][1] = k}

Next == /\ l <= Len(Trace)
        /\ LET e == Trace[l]
               hit == Lookup(e.key)
           IN IF hit = {} THEN known' = Append(known, <<e.key, e.res>>)
              ELSE /\ (IF known[CHOOSE i \in hit : TRUE][2] # e.res THEN PrintT(<<"CONFLICT", l>>) ELSE TRUE)
                   /\ UNCHANGED known
        /\ l' = l + 1
Spec == Init /\ [][Next]_vars
Done == PrintT(<<"TRACE_RESULT", TLCGet("stats").diameter - 1, Len(Trace)>>) /\ TLCGet("stats").diameter - 1 = Len(Trace)
=============================================================================
