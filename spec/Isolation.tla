------------------------------ MODULE Isolation ------------------------------
(***************************************************************************)
(* C15 (isolation and reuse): the process-level history model.                 *)
(*                                                                         *)
(* Objects are created by Create(g, opt) (a Parser for grammar g with optimizer   *)
(* setting opt) and Generate(p) (a generated module from parser p).  A call           *)
(* Parse(o, c) runs case c (a succeeding or a failing (rule, input, start) of o's      *)
(* grammar) on object o.  IDEAL: the result of Parse(o, c) is a function of              *)
(*     Key(o, c) = <<grammar, optimizer setting, interpreted / generated, case>>          *)
(* and of nothing else - not of what was created, generated or parsed before.               *)
(*                                                                         *)
(* This module ENUMERATES every history up to length N followed by one observed call;         *)
(* the harness replays each history in a pristine process and logs                             *)
(* (Key, digest of the result) for every Parse; IsolationTrace.tla then checks that the          *)
(* log is functional in Key.  What the code really shares between objects (the                     *)
(* module-level built-in rule objects in Parser.BUILTIN, per-node lazy caches, the                   *)
(* DEFAULT_OPTIMIZER instance) is what such a history can disturb.                                   *)
(***************************************************************************)
EXTENDS Integers, Sequences, FiniteSets, TLC, Json

CONSTANTS N, Grammars, Opts

VARIABLES objs,   \* sequence of objects: [g, opt, kind |-> "interp" | "gen"]
          hist    \* sequence of events
vars == <<objs, hist>>

Init == objs = <<>> /\ hist = <<>>

More == Len(hist) < N
Create(g, o) == /\ More
                /\ objs' = Append(objs, [g |-> g, opt |-> o, kind |-> "interp"])
                /\ hist' = Append(hist, [ev |-> "create", g |-> g, opt |-> o])
Generate(i) == /\ More /\ objs[i].kind = "interp"
               /\ objs' = Append(objs, [g |-> objs[i].g, opt |-> objs[i].opt, kind |-> "gen"])
               /\ hist' = Append(hist, [ev |-> "generate", of |-> i])
Parse(i, c) == /\ More
               /\ hist' = Append(hist, [ev |-> "parse", on |-> i, case |-> c])
               /\ UNCHANGED objs
Next == \/ \E g \in Grammars, o \in Opts : Create(g, o)
        \/ \E i \in 1..Len(objs) : Generate(i)
        \/ \E i \in 1..Len(objs), c \in {"ok", "fail"} : Parse(i, c)
Spec == Init /\ [][Next]_vars

Key(i, c) == <<objs[i].g, objs[i].opt, objs[i].kind, c>>

\* a maximal history, followed by every possible observed call
Emit == (Len(hist) = N /\ objs # <<>>) =>
          PrintT(ToJson([hist |-> hist, objs |-> objs]))
=============================================================================
