------------------------------ MODULE ErrTrace ------------------------------
(***************************************************************************)
(* Code -> spec validation for C13: every rendered PestParsingError (recorded  *)
(* by the harness: the input, the furthest-failure position p, the line:column   *)
(* and the source line that the message shows) is checked against LineCol.tla:    *)
(*     <<line, col>> = LineCol(text, p)                                           *)
(*     shown line    = text[LineStart(text,p) .. LineEnd(text,p)) with trailing     *)
(*                     white space removed (the message strips it)                  *)
(* and start <= p <= Len(text).  Events with the sentinel p = -1 are not logged.     *)
(* Verdicts are total: "accept" | "bounds" | "linecol" | "line".                      *)
(***************************************************************************)
EXTENDS LineColDefs, Json, TLC, IOUtils

Trace == ndJsonDeserialize(IOEnv.TRACE_FILE)

VARIABLE l

White == {32, 9, 10, 11, 12, 13, 28, 29, 30, 31, 133, 160, 5760, 8232, 8233, 8239, 8287, 12288} \cup (8192..8202)
RECURSIVE RStrip(_)
RStrip(s) == IF s # <<>> /\ s[Len(s)] \in White THEN RStrip(SubSeq(s, 1, Len(s) - 1)) ELSE s

Verdict(e) ==
  IF ~(e.start <= e.p /\ e.p <= Len(e.text)) THEN "bounds"
  ELSE IF <<e.line, e.col>> # LineCol(e.text, e.p) THEN "linecol"
  ELSE IF RStrip(e.shown) # RStrip(SubSeq(e.text, LineStart(e.text, e.p) + 1, LineEnd(e.text, e.p))) THEN "line"
  ELSE "accept"

TInit == l = 1
TNext == l <= Len(Trace) /\ PrintT(<<"EV", l, Verdict(Trace[l])>>) /\ l' = l + 1
TSpec == TInit /\ [][TNext]_l
=============================================================================
