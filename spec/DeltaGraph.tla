----------------------------- MODULE DeltaGraph -----------------------------
(***************************************************************************)
(* C09, one test per transition of the implementation-shaped model: the state   *)
(* graph of stack.py's encoding (items, popped, lengths) under size bounds is      *)
(* finite once a push takes the smallest value not held anywhere.  TLC visits         *)
(* every distinct state once (VIEW hides the path), keeps a shortest operation path      *)
(* to it and prints, for the state, the path and the result of EACH of the six             *)
(* operations from it (visible items and the internal fields).  The harness drives a        *)
(* real pest.stack.Stack along the path, applies each operation and compares the             *)
(* visible contents with the model (which DeltaStack.tla proves equal to full copies);        *)
(* it also compares the internal fields, and reports a difference there as "model drift"       *)
(* (the graph would then no longer cover the code), never as a violation.                       *)
(***************************************************************************)
EXTENDS DeltaOps, Json

CONSTANTS MaxItems, MaxSnaps

VARIABLES items, popped, lengths, path
vars == <<items, popped, lengths, path>>
\* all held values are distinct and the code never inspects them: a state is its SHAPE
view == <<Len(items), Len(popped), lengths>>

Cur == St(items, popped, lengths)
Set(s) == items' = s.items /\ popped' = s.popped /\ lengths' = s.lengths
Held(s) == {s.items[i] : i \in 1..Len(s.items)} \cup {s.popped[i] : i \in 1..Len(s.popped)}
Fresh(s) == CHOOSE v \in 1..(MaxItems * (MaxSnaps + 2) + 8) : v \notin Held(s) /\ \A w \in 1..(v - 1) : w \in Held(s)

Init == items = <<>> /\ popped = <<>> /\ lengths = <<>> /\ path = <<>>

Step(op, s) == Set(s) /\ path' = Append(path, <<op, IF op = "push" THEN Fresh(Cur) ELSE 0>>)
Next == \/ (Len(items) < MaxItems /\ Step("push", PushF(Cur, Fresh(Cur))))
        \/ (items # <<>> /\ Step("pop", PopF(Cur)))
        \/ Step("clear", ClearF(Cur))
        \/ (Len(lengths) < MaxSnaps /\ Step("snapshot", SnapshotF(Cur)))
        \/ Step("restore", RestoreF(Cur))
        \/ Step("drop_snapshot", DropF(Cur))
Spec == Init /\ [][Next]_vars

Ops == {"push", "pop", "clear", "snapshot", "restore", "drop_snapshot"}
Enabled_(op, s) == CASE op = "pop" -> s.items # <<>> [] OTHER -> TRUE      \* (no size bound here: the probe may leave the bounded graph)
Apply(op, s) == CASE op = "push" -> PushF(s, Fresh(s)) [] op = "pop" -> PopF(s) [] op = "clear" -> ClearF(s)
                  [] op = "snapshot" -> SnapshotF(s) [] op = "restore" -> RestoreF(s) [] op = "drop_snapshot" -> DropF(s)
\* every operation sequence of length D from this state, with the visible contents after each step
\* (a sequence stops being emitted at the first operation that is not enabled)
CONSTANT D
RECURSIVE Probes(_, _)
Probes(s, d) == IF d = 0 THEN {<<>>}
                ELSE UNION {{<<<<op, IF op = "push" THEN Fresh(s) ELSE 0, Apply(op, s).items>>>> \o rest
                             : rest \in Probes(Apply(op, s), d - 1)} : op \in {o \in Ops : Enabled_(o, s)}}
Emit == PrintT(ToJson([path |-> path, state |-> Cur, probes |-> Probes(Cur, D)]))
=============================================================================
