------------------------------ MODULE PestSem ------------------------------
(***************************************************************************)
(* Reference semantics of pest grammars ("pest's PEG semantics" of C03,    *)
(* C04, C05): a total recursive function                                    *)
(*                                                                         *)
(*     Outcome(g, rule, input, k)  =  [ok |-> TRUE, pairs |-> tree]         *)
(*                                  |  [ok |-> FALSE]                        *)
(*                                                                         *)
(* Backtracking is BY VALUE: a failed branch simply hands the caller's      *)
(* state back, so this is the "full copy" meaning against which the         *)
(* checkpoint machinery of the implementation (PestVM.tla, state.py) is      *)
(* judged.                                                                 *)
(*                                                                         *)
(* Grammar  g : [rule name -> [mod, body]]                                  *)
(*   mod in {"", "_", "@", "$", "!"}                                        *)
(* Expression terms are records tagged by k (see the constructors).         *)
(* Text is a sequence of code points (integers); offsets are 0-based.       *)
(* A pair is the tuple <<rule, start, end, children>>.                      *)
(*                                                                         *)
(* Evaluation state  st : [pos, stk, atom]                                  *)
(*   atom = "N" non-atomic (trivia is skipped), "A" atomic (no trivia, no    *)
(*   pairs), "C" compound atomic (no trivia, pairs).                         *)
(***************************************************************************)
EXTENDS Integers, Sequences, FiniteSets, TLC

-----------------------------------------------------------------------------
\* Constructors
Str(s)        == [k |-> "str", s |-> s]
IStr(s)       == [k |-> "istr", s |-> s]
Rng(lo, hi)   == [k |-> "range", lo |-> lo, hi |-> hi]
Cls(n)        == [k |-> "cls", n |-> n]
AnyC          == [k |-> "any"]
Soi           == [k |-> "soi"]
Eoi           == [k |-> "eoi"]
Ref(n)        == [k |-> "ref", n |-> n]
SeqE(es)      == [k |-> "seq", es |-> es]
AltE(es)      == [k |-> "alt", es |-> es]
Opt(e)        == [k |-> "opt", e |-> e]
Star(e)       == [k |-> "star", e |-> e]
Plus(e)       == [k |-> "plus", e |-> e]
Exact(e, n)   == [k |-> "exact", e |-> e, n |-> n]
MinR(e, n)    == [k |-> "min", e |-> e, n |-> n]
MaxR(e, n)    == [k |-> "max", e |-> e, n |-> n]
MinMax(e, m, n) == [k |-> "minmax", e |-> e, m |-> m, n |-> n]
AndP(e)       == [k |-> "and", e |-> e]
NotP(e)       == [k |-> "not", e |-> e]
PushE(e)      == [k |-> "push", e |-> e]
PushLit(s)    == [k |-> "pushlit", s |-> s]
PeekT         == [k |-> "peek"]
PopT          == [k |-> "pop"]
DropT         == [k |-> "drop"]
PeekAllT      == [k |-> "peekall"]
PopAllT       == [k |-> "popall"]
\* PEEK[a..b]; ha/hb say whether the bound is written
PeekSl(ha, a, hb, b) == [k |-> "peekslice", ha |-> ha, a |-> a, hb |-> hb, b |-> b]
\* #t = e : matching is that of e; which pair receives the tag is pinned by no statement
\* (compared between execution modes, never against this reference)
Tag(t, e)     == [k |-> "tag", t |-> t, e |-> e]

Rule(mod, body) == [mod |-> mod, body |-> body]

-----------------------------------------------------------------------------
\* Helpers
RECURSIVE RepSeq(_, _)
RepSeq(x, n) == IF n = 0 THEN <<>> ELSE <<x>> \o RepSeq(x, n - 1)

\* Bounded repetitions are DEFINED by their unrolled sequences (C03, C04).
Unroll(e) ==
  CASE e.k = "plus"   -> SeqE(<<e.e, Star(e.e)>>)
    [] e.k = "exact"  -> SeqE(RepSeq(e.e, e.n))
    [] e.k = "min"    -> SeqE(RepSeq(e.e, e.n) \o <<Star(e.e)>>)
    [] e.k = "max"    -> SeqE(RepSeq(Opt(e.e), e.n))
    [] e.k = "minmax" -> SeqE(RepSeq(e.e, e.m) \o RepSeq(Opt(e.e), e.n - e.m))

Fold(c) == IF c >= 65 /\ c <= 90 THEN c + 32 ELSE c      \* ASCII case folding only

MatchesAt(inp, pos, s) ==
  /\ pos + Len(s) <= Len(inp)
  /\ \A i \in 1..Len(s) : inp[pos + i] = s[i]
MatchesAtCI(inp, pos, s) ==
  /\ pos + Len(s) <= Len(inp)
  /\ \A i \in 1..Len(s) : Fold(inp[pos + i]) = Fold(s[i])

\* Built-in ASCII character classes (pest's documented definitions)
InRange(c, lo, hi) == c >= lo /\ c <= hi
InClass(n, c) ==
  CASE n = "ASCII_DIGIT"         -> InRange(c, 48, 57)
    [] n = "ASCII_NONZERO_DIGIT" -> InRange(c, 49, 57)
    [] n = "ASCII_BIN_DIGIT"     -> InRange(c, 48, 49)
    [] n = "ASCII_OCT_DIGIT"     -> InRange(c, 48, 55)
    [] n = "ASCII_HEX_DIGIT"     -> InRange(c, 48, 57) \/ InRange(c, 97, 102) \/ InRange(c, 65, 70)
    [] n = "ASCII_ALPHA_LOWER"   -> InRange(c, 97, 122)
    [] n = "ASCII_ALPHA_UPPER"   -> InRange(c, 65, 90)
    [] n = "ASCII_ALPHA"         -> InRange(c, 97, 122) \/ InRange(c, 65, 90)
    [] n = "ASCII_ALPHANUMERIC"  -> InRange(c, 48, 57) \/ InRange(c, 97, 122) \/ InRange(c, 65, 90)
    [] n = "ASCII"               -> InRange(c, 0, 127)

RECURSIVE Concat(_)
Concat(ss) == IF ss = <<>> THEN <<>> ELSE ss[1] \o Concat(Tail(ss))
Rev(s) == [i \in 1..Len(s) |-> s[Len(s) + 1 - i]]

\* Python slice of a stack (bottom first) for PEEK[a..b]
SliceOf(stk, ha, a, hb, b) ==
  LET n  == Len(stk)
      lo0 == IF ~ha THEN 0 ELSE IF a < 0 THEN n + a ELSE a
      hi0 == IF ~hb THEN n ELSE IF b < 0 THEN n + b ELSE b
      lo == IF lo0 < 0 THEN 0 ELSE IF lo0 > n THEN n ELSE lo0
      hi == IF hi0 < 0 THEN 0 ELSE IF hi0 > n THEN n ELSE hi0
  IN IF lo >= hi THEN <<>> ELSE SubSeq(stk, lo + 1, hi)
\* pest fails when an index lies outside the stack; Python clamps.  No statement pins
\* which, so such slices are outside the checked domain (InRangeSlice is the filter).
InRangeSlice(stk, ha, a, hb, b) ==
  LET n == Len(stk)
      lo == IF ~ha THEN 0 ELSE IF a < 0 THEN n + a ELSE a
      hi == IF ~hb THEN n ELSE IF b < 0 THEN n + b ELSE b
  IN lo >= 0 /\ hi <= n /\ lo <= hi

-----------------------------------------------------------------------------
\* Results
FailR        == [ok |-> FALSE]
OkR(p, s, o) == [ok |-> TRUE, pos |-> p, stk |-> s, out |-> o]
MkPair(n, s, e, inner) == <<n, s, e, inner>>

IsTrivia(n) == n \in {"WHITESPACE", "COMMENT"}
\* WHITESPACE and COMMENT bodies are matched atomically whatever their modifier says
InnerAtom(n, mod, atom) ==
  IF IsTrivia(n) /\ mod \in {"", "_", "!"} THEN "A"
  ELSE CASE mod = "@" -> "A" [] mod = "$" -> "C" [] mod = "!" -> "N" [] OTHER -> atom
\* the atomicity under which the rule's OWN pair is decided ($ and ! switch first)
OwnAtom(mod, atom) == CASE mod = "$" -> "C" [] mod = "!" -> "N" [] OTHER -> atom

HasTrivia(g) == "WHITESPACE" \in DOMAIN g \/ "COMMENT" \in DOMAIN g

St(p, s, a) == [pos |-> p, stk |-> s, atom |-> a]

RECURSIVE Eval(_, _, _, _), Apply(_, _, _, _), Skip(_, _, _), SeqFrom(_, _, _, _, _, _),
          AltFrom(_, _, _, _, _), StarMore(_, _, _, _, _)

\* One round of implicit trivia: WHITESPACE, else COMMENT, from the same state.
SkipOnce(g, inp, st) ==
  LET w == IF "WHITESPACE" \in DOMAIN g THEN Apply(g, "WHITESPACE", inp, st) ELSE FailR
  IN IF w.ok /\ w.pos > st.pos THEN w
     ELSE LET c == IF "COMMENT" \in DOMAIN g THEN Apply(g, "COMMENT", inp, st) ELSE FailR
          IN IF c.ok /\ c.pos > st.pos THEN c ELSE FailR

\* (WHITESPACE | COMMENT)* ; nothing when atomic or when neither rule is defined
Skip(g, inp, st) ==
  IF st.atom # "N" \/ ~HasTrivia(g) THEN OkR(st.pos, st.stk, <<>>)
  ELSE LET r == SkipOnce(g, inp, st)
       IN IF ~r.ok THEN OkR(st.pos, st.stk, <<>>)
          ELSE LET m == Skip(g, inp, St(r.pos, r.stk, st.atom))
               IN OkR(m.pos, m.stk, r.out \o m.out)

\* Rule application
Apply(g, n, inp, st) ==
  LET rl  == g[n]
      r   == Eval(g, rl.body, inp, St(st.pos, st.stk, InnerAtom(n, rl.mod, st.atom)))
  IN IF ~r.ok THEN FailR
     ELSE IF rl.mod = "_" \/ OwnAtom(rl.mod, st.atom) = "A" THEN r
     ELSE OkR(r.pos, r.stk, <<MkPair(n, st.pos, r.pos, r.out)>>)

\* e1 ~ e2 ~ ... : trivia after every element that has a following element
SeqFrom(g, es, i, inp, st, acc) ==
  LET r == Eval(g, es[i], inp, st)
  IN IF ~r.ok THEN FailR
     ELSE IF i = Len(es) THEN OkR(r.pos, r.stk, acc \o r.out)
     ELSE LET m == Skip(g, inp, St(r.pos, r.stk, st.atom))
          IN SeqFrom(g, es, i + 1, inp, St(m.pos, m.stk, st.atom), acc \o r.out \o m.out)

\* e1 | e2 | ... : ordered, commits to the first that succeeds, each from the caller's state
AltFrom(g, es, i, inp, st) ==
  LET r == Eval(g, es[i], inp, st)
  IN IF r.ok THEN r ELSE IF i = Len(es) THEN FailR ELSE AltFrom(g, es, i + 1, inp, st)

\* (skip e)* : trivia before a failed (or empty) iteration is given back
StarMore(g, e, inp, st, acc) ==
  LET m == Skip(g, inp, st)
      r == Eval(g, e, inp, St(m.pos, m.stk, st.atom))
  IN IF ~r.ok \/ r.pos = st.pos THEN OkR(st.pos, st.stk, acc)
     ELSE StarMore(g, e, inp, St(r.pos, r.stk, st.atom), acc \o m.out \o r.out)

Eval(g, e, inp, st) ==
  LET pos == st.pos
      stk == st.stk
      Here(ok, n) == IF ok THEN OkR(pos + n, stk, <<>>) ELSE FailR
  IN
  CASE e.k = "str"   -> Here(MatchesAt(inp, pos, e.s), Len(e.s))
    [] e.k = "istr"  -> Here(MatchesAtCI(inp, pos, e.s), Len(e.s))
    [] e.k = "range" -> Here(pos < Len(inp) /\ InRange(inp[pos + 1], e.lo, e.hi), 1)
    [] e.k = "cls"   -> Here(pos < Len(inp) /\ InClass(e.n, inp[pos + 1]), 1)
    \* a Unicode property class: opaque here; the trace supplies its extension over the
    \* characters that occur (membership is a function of (rule, code point), C12)
    [] e.k = "cset"  -> Here(pos < Len(inp) /\ (\E i \in 1..Len(e.cs) : e.cs[i] = inp[pos + 1]), 1)
    [] e.k = "any"   -> Here(pos < Len(inp), 1)
    [] e.k = "soi"   -> Here(pos = 0, 0)
    [] e.k = "eoi"   -> IF pos # Len(inp) THEN FailR
                        ELSE OkR(pos, stk, IF st.atom = "A" THEN <<>> ELSE <<MkPair("EOI", pos, pos, <<>>)>>)
    [] e.k = "ref"   -> Apply(g, e.n, inp, st)
    [] e.k = "seq"   -> IF e.es = <<>> THEN OkR(pos, stk, <<>>)     \* e{0}, e{,0} unroll to the empty sequence
                        ELSE SeqFrom(g, e.es, 1, inp, st, <<>>)
    [] e.k = "alt"   -> AltFrom(g, e.es, 1, inp, st)
    [] e.k = "opt"   -> LET r == Eval(g, e.e, inp, st) IN IF r.ok THEN r ELSE OkR(pos, stk, <<>>)
    [] e.k = "star"  -> LET r == Eval(g, e.e, inp, st)
                        IN IF ~r.ok \/ r.pos = pos THEN OkR(pos, stk, <<>>)
                           ELSE StarMore(g, e.e, inp, St(r.pos, r.stk, st.atom), r.out)
    [] e.k \in {"plus", "exact", "min", "max", "minmax"} -> Eval(g, Unroll(e), inp, st)
    \* predicates: consume nothing, contribute no pairs, undo every stack change
    [] e.k = "and"   -> IF Eval(g, e.e, inp, st).ok THEN OkR(pos, stk, <<>>) ELSE FailR
    [] e.k = "not"   -> IF Eval(g, e.e, inp, st).ok THEN FailR ELSE OkR(pos, stk, <<>>)
    \* stack operations (C05); all total: an empty stack is a failure, never an error
    [] e.k = "pushlit" -> OkR(pos, Append(stk, e.s), <<>>)
    [] e.k = "push"  -> LET r == Eval(g, e.e, inp, st)
                        IN IF ~r.ok THEN FailR
                           ELSE OkR(r.pos, Append(r.stk, SubSeq(inp, pos + 1, r.pos)), r.out)
    [] e.k = "peek"  -> IF stk = <<>> THEN FailR ELSE Here(MatchesAt(inp, pos, stk[Len(stk)]), Len(stk[Len(stk)]))
    [] e.k = "pop"   -> IF stk = <<>> \/ ~MatchesAt(inp, pos, stk[Len(stk)]) THEN FailR
                        ELSE OkR(pos + Len(stk[Len(stk)]), SubSeq(stk, 1, Len(stk) - 1), <<>>)
    [] e.k = "drop"  -> IF stk = <<>> THEN FailR ELSE OkR(pos, SubSeq(stk, 1, Len(stk) - 1), <<>>)
    [] e.k = "peekall" -> LET s == Concat(Rev(stk)) IN Here(MatchesAt(inp, pos, s), Len(s))
    [] e.k = "popall"  -> LET s == Concat(Rev(stk))
                          IN IF MatchesAt(inp, pos, s) THEN OkR(pos + Len(s), <<>>, <<>>) ELSE FailR
    [] e.k = "peekslice" -> LET s == Concat(SliceOf(stk, e.ha, e.a, e.hb, e.b))
                            IN Here(MatchesAt(inp, pos, s), Len(s))
    [] e.k = "tag"   -> Eval(g, e.e, inp, st)

\* What parse(rule, input, start_pos = k) returns
Outcome(g, rule, inp, k) ==
  LET r == Eval(g, Ref(rule), inp, St(k, <<>>, "N"))
  IN IF r.ok THEN [ok |-> TRUE, pairs |-> r.out] ELSE [ok |-> FALSE]

-----------------------------------------------------------------------------
\* Properties of the reference itself (checked by TLC on every enumerated case)

\* C06: spans nested, ordered, within [k, Len(inp)]
RECURSIVE WF(_, _, _)
WF(ps, lo, hi) ==
  \A i \in 1..Len(ps) :
     /\ lo <= ps[i][2] /\ ps[i][2] <= ps[i][3] /\ ps[i][3] <= hi
     /\ (i > 1 => ps[i - 1][3] <= ps[i][2])
     /\ WF(ps[i][4], ps[i][2], ps[i][3])
TreeWF(o, inp, k) == o.ok => WF(o.pairs, k, Len(inp))

\* a non-silent start rule yields exactly one root pair starting at k
SingleRoot(g, rule, o, k) ==
  (o.ok /\ g[rule].mod # "_") => (Len(o.pairs) = 1 /\ o.pairs[1][1] = rule /\ o.pairs[1][2] = k)

\* C16: the outcome at start k equals the outcome on the suffix, shifted by k
RECURSIVE Shift(_, _)
Shift(ps, d) == [i \in 1..Len(ps) |-> <<ps[i][1], ps[i][2] + d, ps[i][3] + d, Shift(ps[i][4], d)>>]
ShiftO(o, d) == IF o.ok THEN [ok |-> TRUE, pairs |-> Shift(o.pairs, d)] ELSE o
Suffix(inp, k) == SubSeq(inp, k + 1, Len(inp))
=============================================================================
