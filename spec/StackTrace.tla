----------------------------- MODULE StackTrace -----------------------------
(***************************************************************************)
(* Code -> spec trace validation for C09/C05: operations performed on real  *)
(* pest.stack.Stack objects (user stack and rule stack) during real parses,  *)
(* recorded by the harness AFTER each call returned, are checked to be a     *)
(* behaviour of SnapStack (full copies).  Every event carries the visible    *)
(* contents after the call, so the search is linear in the trace.            *)
(*                                                                         *)
(* Event: [op, v, items]   op = "new" starts the trace of another object.    *)
(* pop_err = pop() raised IndexError: allowed only on an empty stack.        *)
(***************************************************************************)
EXTENDS SnapStack, Json, TLC, IOUtils

Trace == ndJsonDeserialize(IOEnv.TRACE_FILE)

VARIABLE l
tvars == <<items, snaps, l>>

TInit == SInit /\ l = 1

IsEvent(op) == l <= Len(Trace) /\ Trace[l].op = op /\ l' = l + 1
Logged == items' = Trace[l].items

TNew      == IsEvent("new") /\ items' = <<>> /\ snaps' = <<>>
TPush     == IsEvent("push") /\ Push(Trace[l].v) /\ Logged
TPop      == IsEvent("pop") /\ Pop /\ Logged
TPopErr   == IsEvent("pop_err") /\ items = <<>> /\ UNCHANGED svars
TClear    == IsEvent("clear") /\ Clear /\ Logged
TSnapshot == IsEvent("snapshot") /\ Snapshot /\ Logged
TRestore  == IsEvent("restore") /\ Restore /\ Logged
TDrop     == IsEvent("drop_snapshot") /\ DropSnapshot /\ Logged

TNext == TNew \/ TPush \/ TPop \/ TPopErr \/ TClear \/ TSnapshot \/ TRestore \/ TDrop
TSpec == TInit /\ [][TNext]_tvars

\* one state per consumed line plus the initial state
TraceAccepted ==
  LET d == TLCGet("stats").diameter - 1
  IN /\ PrintT(<<"TRACE_RESULT", d, Len(Trace)>>)
     /\ d = Len(Trace)
=============================================================================
