SPECIFICATION Spec
POSTCONDITION Done
CHECK_DEADLOCK FALSE
