----------------------------- MODULE OpExprDefs -----------------------------
(***************************************************************************)
(* Definitions shared by OpExpr.tla (C18) and CalcExpr.tla (C17): all trees   *)
(* over a token stream, the precedence-validity criterion, the denoted tree,    *)
(* the Pratt loop of src/pest/pratt.py transcribed, and stream well-formedness.   *)
(* See OpExpr.tla for the explanation.                                           *)
(***************************************************************************)
EXTENDS Integers, Sequences, FiniteSets, TLC, Json

CONSTANTS PostfixGuard

-----------------------------------------------------------------------------
\* all trees with yield toks[i..j]
RECURSIVE Trees(_, _, _)
Trees(toks, i, j) ==
  IF i > j THEN {}
  ELSE (IF i = j /\ toks[i].t = "p" THEN {<<"p", i>>} ELSE {})
       \cup (IF toks[i].t = "pre" THEN {<<"pre", toks[i].n, x>> : x \in Trees(toks, i + 1, j)} ELSE {})
       \cup (IF toks[j].t = "post" THEN {<<"post", toks[j].n, x>> : x \in Trees(toks, i, j - 1)} ELSE {})
       \cup UNION {IF toks[k].t = "in"
                   THEN {<<"in", toks[k].n, l, r>> : l \in Trees(toks, i, k - 1), r \in Trees(toks, k + 1, j)}
                   ELSE {} : k \in (i + 1)..(j - 1)}

Prec(T, n) == CASE n[1] = "in" -> T.inf[n[2]].p [] n[1] = "pre" -> T.pre[n[2]] [] n[1] = "post" -> T.post[n[2]]

\* n is the LEFT operand of an operator of precedence p: every operator on its right spine
\* (nodes open on the right: infix, prefix) must bind tighter; a tie is allowed only for an
\* infix node and only if tieOk (the parent is left associative)
RECURSIVE RightSpineOk(_, _, _, _)
RightSpineOk(T, n, p, tieOk) ==
  IF n[1] \notin {"in", "pre"} THEN TRUE
  ELSE LET q == Prec(T, n)
       IN /\ (q > p \/ (q = p /\ n[1] = "in" /\ tieOk))
          /\ RightSpineOk(T, IF n[1] = "in" THEN n[4] ELSE n[3], p, tieOk)
\* n is the RIGHT operand: its left spine (infix, postfix)
RECURSIVE LeftSpineOk(_, _, _, _)
LeftSpineOk(T, n, p, tieOk) ==
  IF n[1] \notin {"in", "post"} THEN TRUE
  ELSE LET q == Prec(T, n)
       IN /\ (q > p \/ (q = p /\ n[1] = "in" /\ tieOk))
          /\ LeftSpineOk(T, n[3], p, tieOk)

RECURSIVE Valid(_, _)
Valid(T, n) ==
  CASE n[1] = "p"    -> TRUE
    [] n[1] = "in"   -> LET p == Prec(T, n)  ra == T.inf[n[2]].right
                        IN /\ RightSpineOk(T, n[3], p, ~ra) /\ LeftSpineOk(T, n[4], p, ra)
                           /\ Valid(T, n[3]) /\ Valid(T, n[4])
    [] n[1] = "pre"  -> LeftSpineOk(T, n[3], Prec(T, n), FALSE) /\ Valid(T, n[3])
    [] n[1] = "post" -> RightSpineOk(T, n[3], Prec(T, n), FALSE) /\ Valid(T, n[3])

ValidTrees(T, toks) == {x \in Trees(toks, 1, Len(toks)) : Valid(T, x)}
Denoted(T, toks) == CHOOSE x \in ValidTrees(T, toks) : TRUE

-----------------------------------------------------------------------------
\* PrattParser.parse_expr transcribed (recursive descent with min_prec); returns [tree, i]
RECURSIVE PExpr(_, _, _, _), PLoop(_, _, _, _, _)
PExpr(T, toks, i, minp) ==
  LET tok == toks[i]
  IN IF tok.t = "pre"
     THEN LET r == PExpr(T, toks, i + 1, T.pre[tok.n])
          IN PLoop(T, toks, <<"pre", tok.n, r.tree>>, r.i, minp)
     ELSE PLoop(T, toks, <<"p", i>>, i + 1, minp)
PLoop(T, toks, left, i, minp) ==
  IF i > Len(toks) THEN [tree |-> left, i |-> i]
  ELSE LET tok == toks[i]
       IN IF tok.t = "post"
          THEN IF PostfixGuard /\ T.post[tok.n] < minp THEN [tree |-> left, i |-> i]
               ELSE PLoop(T, toks, <<"post", tok.n, left>>, i + 1, minp)
          ELSE IF tok.t = "in"
          THEN LET pr == T.inf[tok.n]
               IN IF pr.p < minp THEN [tree |-> left, i |-> i]
                  ELSE LET r == PExpr(T, toks, i + 1, pr.p + (IF pr.right THEN 0 ELSE 1))
                       IN PLoop(T, toks, <<"in", tok.n, left, r.tree>>, r.i, minp)
          ELSE [tree |-> left, i |-> i]
Pratt(T, toks) == PExpr(T, toks, 1, 0)

Tok(t, n) == [t |-> t, n |-> n]
TokSet(T) == {Tok("p", "x")} \cup {Tok("in", n) : n \in DOMAIN T.inf} \cup {Tok("pre", n) : n \in DOMAIN T.pre}
             \cup {Tok("post", n) : n \in DOMAIN T.post}
\* well-formedness as a two-state automaton: "want operand" / "have operand"
RECURSIVE WFFrom(_, _, _)
WFFrom(toks, i, have) ==
  IF i > Len(toks) THEN have
  ELSE LET k == toks[i].t
       IN IF have THEN (k = "post" /\ WFFrom(toks, i + 1, TRUE)) \/ (k = "in" /\ WFFrom(toks, i + 1, FALSE))
          ELSE (k = "pre" /\ WFFrom(toks, i + 1, FALSE)) \/ (k = "p" /\ WFFrom(toks, i + 1, TRUE))
=============================================================================
