SPECIFICATION TSpec
CONSTANTS
  NL = 10
CHECK_DEADLOCK FALSE
