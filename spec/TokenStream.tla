----------------------------- MODULE TokenStream -----------------------------
(***************************************************************************)
(* C06: the token stream of a parse result as a pushdown monitor.             *)
(*                                                                         *)
(* Events:  Begin(lo, hi)  a result for parse(.., start_pos = lo) on an input   *)
(*                         of length hi                                        *)
(*          S(rule, pos)   Start token        E(rule, pos)   End token          *)
(*          Finish         end of the stream                                    *)
(* State:   open  - stack of rule names whose Start has no End yet               *)
(*          last  - position of the previous token                               *)
(* Guards:  positions never decrease and stay within [lo, hi]; an End closes      *)
(*          the innermost open Start and names the same rule; the stack is         *)
(*          empty at Finish.                                                       *)
(*                                                                         *)
(* A balanced stream with non-decreasing positions is exactly a forest whose      *)
(* pairs satisfy lo <= start <= end <= hi, children in input order, pairwise       *)
(* non-overlapping and inside the parent's span (TreeWF).  TokenStreamProps.tla     *)
(* has TLC confirm this equivalence on all small forests, so the monitor is          *)
(* neither vacuous nor over-strict.                                                 *)
(***************************************************************************)
EXTENDS Integers, Sequences

VARIABLES open, last, lo, hi, live
tsvars == <<open, last, lo, hi, live>>

TSInit == open = <<>> /\ last = 0 /\ lo = 0 /\ hi = 0 /\ live = FALSE

Begin(a, b) == /\ ~live /\ a <= b
               /\ live' = TRUE /\ lo' = a /\ hi' = b /\ last' = a /\ open' = <<>>
StartTok(r, p) == /\ live /\ last <= p /\ p <= hi
                  /\ open' = Append(open, r) /\ last' = p /\ UNCHANGED <<lo, hi, live>>
EndTok(r, p)   == /\ live /\ open # <<>> /\ open[Len(open)] = r /\ last <= p /\ p <= hi
                  /\ open' = SubSeq(open, 1, Len(open) - 1) /\ last' = p /\ UNCHANGED <<lo, hi, live>>
Finish == /\ live /\ open = <<>>
          /\ live' = FALSE /\ UNCHANGED <<open, last, lo, hi>>
=============================================================================
