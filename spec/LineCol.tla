------------------------------ MODULE LineCol ------------------------------
(***************************************************************************)
(* C14: what line/column, "the line containing a position" and "the lines   *)
(* a span touches" mean, for texts whose line breaks are "\n".               *)
(*                                                                         *)
(* A text is a sequence of symbols; NL is the line-break symbol.  Offsets    *)
(* p range over 0..Len(text) (p = Len(text) is the end position).            *)
(*                                                                         *)
(*   LineCol(t, p)  = <<1 + #breaks before p, 1 + distance from last break>> *)
(*   LineStart(t,p) = offset just after the last break before p (0 if none)  *)
(*   LineEnd(t, p)  = offset of the next break at or after p (Len if none)   *)
(*                                                                         *)
(* TLC checks that offsets and (line, column) determine each other           *)
(* (Bijective, Inverse) and emits, per text, the table the harness compares  *)
(* Position / Span / Pair utilities against.                                  *)
(***************************************************************************)
EXTENDS LineColDefs, TLC, Json

CONSTANTS MaxLen, Alphabet

Texts == UNION {[1..n -> Alphabet] : n \in 0..MaxLen}

VARIABLES text, phase
vars == <<text, phase>>
Init == text \in Texts /\ phase = "new"
Next == phase = "new" /\ phase' = "done" /\ UNCHANGED text
Spec == Init /\ [][Next]_vars

Bijective == \A p, q \in 0..Len(text) : p # q => LineCol(text, p) # LineCol(text, q)
Inverse   == \A p \in 0..Len(text) : Offset(text, LineCol(text, p)[1], LineCol(text, p)[2]) = p
Monotone  == \A p \in 1..Len(text) :
               LET x == LineCol(text, p - 1)  y == LineCol(text, p)
               IN IF text[p] = NL THEN y = <<x[1] + 1, 1>> ELSE y = <<x[1], x[2] + 1>>
LineBounds == \A p \in 0..Len(text) : LineStart(text, p) <= p /\ p <= LineEnd(text, p)
                 /\ \A i \in (LineStart(text, p) + 1)..LineEnd(text, p) : text[i] # NL

Emit == phase = "done" =>
          PrintT(ToJson([t |-> text,
                         rows |-> [i \in 1..(Len(text) + 1) |->
                                     <<LineCol(text, i - 1)[1], LineCol(text, i - 1)[2], LineStart(text, i - 1), LineEnd(text, i - 1)>>]]))
=============================================================================
