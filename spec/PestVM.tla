------------------------------ MODULE PestVM ------------------------------
(***************************************************************************)
(* The tree-walking interpreter as a small-step machine, shaped like the    *)
(* implementation (src/pest/grammar/expressions/*.py, rule.py, state.py):     *)
(*                                                                         *)
(*   - one frame per active parse() call, one step per return into it;       *)
(*   - ParserState registers pos, user stack, rule stack, atomic depth, and   *)
(*     the four snapshot stacks that checkpoint() / ok() / restore() and      *)
(*     atomic_checkpoint() push and pop;                                      *)
(*   - "children" lists as a stack of buffers: a construct collects pairs in  *)
(*     its own list and extends its caller's list only on success;            *)
(*   - the PROTOCOL of the code: a failing expression leaves position and     *)
(*     stacks as they are (garbage); only the backtracking constructs          *)
(*     (choice, optional, repetition, predicates, implicit trivia) restore.   *)
(*                                                                         *)
(* What TLC checks here (design level):                                       *)
(*   Refines    - the machine's result is PestSem's Outcome: the checkpoint    *)
(*                protocol implements backtracking BY VALUE (C03-C05);         *)
(*   Balanced   - no checkpoint, snapshot, rule-stack entry or buffer is left  *)
(*                open when parse() returns or raises (C05, C15: nothing       *)
(*                leaks into the next call);                                   *)
(*   Discipline - in every state the number of open checkpoints equals the     *)
(*                number of active backtracking frames;                        *)
(*   RestoreExact - every restore() returns the registers to the values they   *)
(*                had when the matching checkpoint() was taken.                *)
(*   FurthestInRange - state.py fail(): the furthest-failure position that  *)
(*                parse() reports is -1 (no terminal recorded a failure) or    *)
(*                lies in start_pos..len(input) (C13); terminals record at the  *)
(*                position where they started, nothing is recorded inside a     *)
(*                negative predicate or implicit trivia, a failing negative      *)
(*                predicate records at its own position;                         *)
(* Snapshot stacks hold full copies here; that the delta encoding of           *)
(* stack.py behaves like full copies is DeltaStack => SnapStack (C09).         *)
(*                                                                         *)
(* Binding: the machine logs its checkpoint / ok / restore events with the     *)
(* registers after each; Emit prints them per case and the harness compares    *)
(* them with the events recorded from the real interpreter on the same case    *)
(* (harness/pestvm.py).  The same recorded events are validated against the    *)
(* discipline alone by StateTrace.tla.                                         *)
(***************************************************************************)
EXTENDS FamilyDefs

\* src/pest/stack.py as pure functions (the delta encoding that C09 relates to full copies): the machine carries the user
\* stack a second time in that encoding (register dstk), driven by exactly the calls the interpreter makes, and DeltaAgrees
\* requires both to show the same contents in every state - C09's refinement, on every history a parse can drive (C05)
D == INSTANCE DeltaOps

VARIABLES g, inp, k,    \* the case: grammar, input, start position (constant along a behaviour)
          m             \* the machine: a record of registers (below)

vars == <<g, inp, k, m>>

-----------------------------------------------------------------------------
TopOf(s)   == s[Len(s)]
ButLast(s) == SubSeq(s, 1, Len(s) - 1)

\* ---- event log (after-state of the registers that state.py checkpoints) ----
Log(x, op) == [x EXCEPT !.tr = Append(@, [op |-> op, pos |-> x.pos, ustk |-> x.ustk, rdepth |-> Len(x.rstk), adepth |-> x.adepth, own |-> FALSE])]
\* the checkpoint that the INTERPRETER's PopAll takes for itself; the generated code matches first and pops afterwards, without one
MarkOwn(x) == [x EXCEPT !.tr[Len(x.tr)].own = TRUE]

RECURSIVE PopN(_, _)
PopN(d, n) == IF n = 0 THEN d ELSE PopN(D!PopF(d), n - 1)

\* ---- state.py: checkpoint / ok / restore ------------------------------------
Checkpoint(x) ==
  Log([x EXCEPT !.usnaps = Append(@, x.ustk), !.rsnaps = Append(@, x.rstk),
                !.asnaps = Append(@, x.adepth), !.poshist = Append(@, x.pos),
                !.dstk = D!SnapshotF(@)], "checkpoint")
Commit(x) ==
  Log([x EXCEPT !.usnaps = ButLast(@), !.rsnaps = ButLast(@), !.asnaps = ButLast(@), !.poshist = ButLast(@),
                !.dstk = D!DropF(@)], "ok")
Restore(x) ==
  Log([x EXCEPT !.ustk = TopOf(x.usnaps), !.usnaps = ButLast(@), !.dstk = D!RestoreF(@),
                !.rstk = TopOf(x.rsnaps), !.rsnaps = ButLast(@),
                !.adepth = TopOf(x.asnaps), !.asnaps = ButLast(@),
                !.pos = TopOf(x.poshist), !.poshist = ButLast(@)], "restore")

\* ---- children lists -----------------------------------------------------------
NewBuf(x)   == [x EXCEPT !.bufs = Append(@, <<>>)]
DropBuf(x)  == [x EXCEPT !.bufs = ButLast(@)]
\* caller.extend(children): the top list is appended to the one below it and goes away
MergeBuf(x) == LET n == Len(x.bufs)
               IN [x EXCEPT !.bufs = Append(SubSeq(@, 1, n - 2), @[n - 1] \o @[n])]
\* pairs.extend(children); children.clear()
FlushBuf(x) == NewBuf(MergeBuf(x))
Emit1(x, p) == [x EXCEPT !.bufs[Len(x.bufs)] = Append(@, p)]

\* ---- control ------------------------------------------------------------------
EvalF(e)       == [f |-> "eval", e |-> e]
Replace(x, fs) == [x EXCEPT !.ctl = ButLast(@) \o fs, !.ret = "none"]   \* last of fs runs next
Return(x, r)   == [x EXCEPT !.ctl = ButLast(@), !.ret = r]

\* rule.py: what stays visible inside an atomic rule
RECURSIVE Visible(_)
Visible(ps) ==
  IF ps = <<>> THEN <<>>
  ELSE LET p == ps[1]
       IN (IF p[1] # "EOI" /\ g[p[1]].mod \in {"$", "!"} THEN <<p>> ELSE Visible(p[4])) \o Visible(Tail(ps))

\* rule.py: "self.modifier & (ATOMIC | COMPOUND) or self.name in (COMMENT, WHITESPACE)"
Atomicish(n) == g[n].mod \in {"@", "$"} \/ IsTrivia(n)
Switches(n)  == Atomicish(n) \/ g[n].mod = "!"

EnterRule(x, n) ==
  LET x1 == [x EXCEPT !.rstk = Append(@, n)]
      x2 == IF Atomicish(n) THEN [x1 EXCEPT !.asnaps = Append(@, x1.adepth), !.adepth = @ + 1]
            ELSE IF g[n].mod = "!" THEN [x1 EXCEPT !.asnaps = Append(@, x1.adepth), !.adepth = 0]
            ELSE x1
  IN Replace(NewBuf(x2), <<[f |-> "rule", n |-> n, start |-> x.pos], EvalF(g[n].body)>>)

LeaveRule(x, F) ==
  LET n  == F.n
      x1 == IF Switches(n) THEN [x EXCEPT !.adepth = TopOf(x.asnaps), !.asnaps = ButLast(@)] ELSE x
      x2 == [x1 EXCEPT !.rstk = ButLast(@)]
      \* rule.py hides_children(): an atomic body hides its inner pairs (WHITESPACE / COMMENT bodies are atomic unless $)
      x3 == IF x.ret = "ok" /\ (g[n].mod = "@" \/ (IsTrivia(n) /\ g[n].mod # "$"))
            THEN [x2 EXCEPT !.bufs[Len(x2.bufs)] = Visible(@)] ELSE x2
  IN IF x.ret = "fail" THEN Return(DropBuf(x3), "fail")
     ELSE IF g[n].mod = "_" THEN Return(MergeBuf(x3), "ok")
     \* a non-silent rule that matched takes the innermost pending tag (rule.py: state.tag_stack.pop())
     ELSE LET tg == IF x3.tags = <<>> THEN "" ELSE TopOf(x3.tags)
              x4 == IF x3.tags = <<>> THEN x3 ELSE [x3 EXCEPT !.tags = ButLast(@)]
          IN Return(Emit1(DropBuf(x4), <<n, F.start, x4.pos, TopOf(x4.bufs), tg>>), "ok")

\* ---- state.py fail(): furthest failure position -------------------------------
\* (the expected / unexpected label sets are not modelled: no statement pins them; C01, C15 compare them between runs)
Record(x)      == IF x.negd > 0 \/ x.supp THEN x ELSE [x EXCEPT !.fp = IF x.pos > @ THEN x.pos ELSE @]
RecordForced(x) == IF x.supp THEN x ELSE [x EXCEPT !.fp = IF x.pos > @ THEN x.pos ELSE @]

\* ---- a terminal: succeeds moving pos by n, or fails touching nothing (and records the failure at its start) --------
Term(x, ok, n) == IF ok THEN Return([x EXCEPT !.pos = @ + n], "ok") ELSE Return(Record(x), "fail")
\* ANY, SOI, EOI and PEEK / POP on an empty stack fail without recording anything
TermQuiet(x, ok, n) == IF ok THEN Return([x EXCEPT !.pos = @ + n], "ok") ELSE Return(x, "fail")

\* parse_trivia(children) runs before the frame below it continues
TriviaF == [f |-> "trivia", ph |-> "start", fresh |-> TRUE, prev |-> FALSE]

EvalStep(x, e) ==
  LET P == x.pos
      S == x.ustk
  IN
  CASE e.k = "str"   -> Term(x, MatchesAt(inp, P, e.s), Len(e.s))
    [] e.k = "istr"  -> Term(x, MatchesAtCI(inp, P, e.s), Len(e.s))
    [] e.k = "range" -> Term(x, P < Len(inp) /\ InRange(inp[P + 1], e.lo, e.hi), 1)
    [] e.k = "cls"   -> Term(x, P < Len(inp) /\ InClass(e.n, inp[P + 1]), 1)
    \* a Unicode property rule: a regex, records no failure; its extension over the characters that occur comes with the grammar
    [] e.k = "cset"  -> TermQuiet(x, P < Len(inp) /\ (\E i \in 1..Len(e.cs) : e.cs[i] = inp[P + 1]), 1)
    [] e.k = "any"   -> TermQuiet(x, P < Len(inp), 1)
    [] e.k = "soi"   -> TermQuiet(x, P = 0, 0)
    \* EOI is a built-in (normal) rule: it always emits its pair; an enclosing atomic rule filters it
    [] e.k = "eoi"   -> IF P # Len(inp) THEN Return(x, "fail")
                        ELSE LET tg == IF x.tags = <<>> THEN "" ELSE TopOf(x.tags)
                                 x1 == IF x.tags = <<>> THEN x ELSE [x EXCEPT !.tags = ButLast(@)]
                             IN Return(Emit1(x1, <<"EOI", P, P, <<>>, tg>>), "ok")
    [] e.k = "ref"   -> EnterRule(x, e.n)
    [] e.k = "seq"   -> IF e.es = <<>> THEN Return(x, "ok")
                        ELSE Replace(NewBuf(x), <<[f |-> "seq", es |-> e.es, i |-> 1], EvalF(e.es[1])>>)
    [] e.k = "alt"   -> Replace(NewBuf(Checkpoint(x)), <<[f |-> "alt", es |-> e.es, i |-> 1], EvalF(e.es[1])>>)
    [] e.k = "opt"   -> Replace(NewBuf(Checkpoint(x)), <<[f |-> "opt"], EvalF(e.e)>>)
    [] e.k = "star"  -> Replace(Checkpoint(NewBuf(x)), <<[f |-> "star", e |-> e.e], EvalF(e.e)>>)
    \* bounded repetitions delegate to their unrolled sequence (postfix.py: _unrolled)
    [] e.k \in {"plus", "exact", "min", "max", "minmax"} -> Replace(x, <<EvalF(Unroll(e))>>)
    [] e.k = "and"   -> Replace(NewBuf(Checkpoint(x)), <<[f |-> "and"], EvalF(e.e)>>)
    [] e.k = "not"   -> Replace([NewBuf(Checkpoint(x)) EXCEPT !.negd = @ + 1], <<[f |-> "not"], EvalF(e.e)>>)
    \* group.py / terminals.py Identifier: "with state.tag(t)": the tag is pending while the term is parsed; tags are NOT
    \* part of what checkpoint() saves
    [] e.k = "tag"   -> Replace([x EXCEPT !.tags = Append(@, e.t)], <<[f |-> "tag"], EvalF(e.e)>>)
    \* stack terminals (terminals.py)
    [] e.k = "pushlit" -> Return([x EXCEPT !.ustk = Append(@, e.s), !.dstk = D!PushF(@, e.s)], "ok")
    [] e.k = "push"  -> Replace(NewBuf(x), <<[f |-> "push", start |-> P], EvalF(e.e)>>)
    [] e.k = "peek"  -> IF S = <<>> THEN Return(x, "fail") ELSE Term(x, MatchesAt(inp, P, TopOf(S)), Len(TopOf(S)))
    [] e.k = "pop"   -> IF S = <<>> THEN Return(x, "fail")
                        ELSE IF ~MatchesAt(inp, P, TopOf(S)) THEN Return(Record(x), "fail")
                        ELSE Return([x EXCEPT !.pos = P + Len(TopOf(S)), !.ustk = ButLast(S), !.dstk = D!PopF(@)], "ok")
    [] e.k = "drop"  -> IF S = <<>> THEN Return(Record(x), "fail") ELSE Return([x EXCEPT !.ustk = ButLast(S), !.dstk = D!PopF(@)], "ok")
    [] e.k = "peekall" -> LET s == Concat(Rev(S)) IN Term(x, MatchesAt(inp, P, s), Len(s))
    \* PopAll takes its own checkpoint, pops entry by entry, and restores on the first mismatch
    [] e.k = "popall"  -> LET s == Concat(Rev(S))
                              x1 == MarkOwn(Checkpoint(x))
                              \* entries popped before the mismatch is noticed: the matching ones and the one that does not match
                              npop == CHOOSE n \in 1..Len(S) : /\ ~MatchesAt(inp, P, Concat(Rev(SubSeq(S, Len(S) - n + 1, Len(S)))))
                                                               /\ \A j \in 1..(n - 1) : MatchesAt(inp, P, Concat(Rev(SubSeq(S, Len(S) - j + 1, Len(S)))))
                          IN IF MatchesAt(inp, P, s) THEN Return([MarkOwn(Commit([x1 EXCEPT !.ustk = <<>>, !.dstk = D!ClearF(@)])) EXCEPT !.pos = P + Len(s)], "ok")
                             ELSE Return(Record(MarkOwn(Restore([x1 EXCEPT !.dstk = PopN(@, npop)]))), "fail")
    [] e.k = "peekslice" -> LET s == Concat(SliceOf(S, e.ha, e.a, e.hb, e.b)) IN Term(x, MatchesAt(inp, P, s), Len(s))

\* ---- a sub-parse returned into frame F (x.ret is "ok" or "fail") -------------
ReturnStep(x, F) ==
  LET ok == x.ret = "ok"
  IN
  CASE F.f = "rule" -> LeaveRule(x, F)
    \* leaving "with state.tag(t)": pops whatever is on top, if anything (state.py tag())
    [] F.f = "tag"  -> Return(IF x.tags = <<>> THEN x ELSE [x EXCEPT !.tags = ButLast(@)], x.ret)
    \* sequence.py: no restore on failure - the position is left where the failing element left it
    [] F.f = "seq"  -> IF ~ok THEN Return(DropBuf(x), "fail")
                       ELSE IF F.i = Len(F.es) THEN Return(MergeBuf(x), "ok")
                       ELSE Replace(x, <<[F EXCEPT !.i = @ + 1], EvalF(F.es[F.i + 1]), TriviaF>>)
    \* choice.py
    [] F.f = "alt"  -> IF ok THEN Return(MergeBuf(Commit(x)), "ok")
                       ELSE LET x1 == DropBuf(Restore(x))
                            IN IF F.i = Len(F.es) THEN Return(x1, "fail")
                               ELSE Replace(NewBuf(Checkpoint(x1)), <<[F EXCEPT !.i = @ + 1], EvalF(F.es[F.i + 1])>>)
    \* postfix.py: Optional
    [] F.f = "opt"  -> IF ok THEN Return(MergeBuf(Commit(x)), "ok") ELSE Return(DropBuf(Restore(x)), "ok")
    \* postfix.py: Repeat - commit the iteration, checkpoint, skip trivia, try again; the final
    \* restore also gives back the trivia matched after the last iteration
    [] F.f = "star" -> IF ok THEN Replace(Checkpoint(FlushBuf(Commit(x))), <<F, EvalF(F.e), TriviaF>>)
                       ELSE Return(DropBuf(Restore(x)), "ok")
    \* prefix.py: always restore; the children list is thrown away
    [] F.f = "and"  -> Return(DropBuf(Restore(x)), x.ret)
    \*   a failing negative predicate records at its own (restored) position, even inside another predicate
    [] F.f = "not"  -> LET x1 == DropBuf(Restore(x))
                           x2 == IF ok THEN RecordForced(x1) ELSE x1
                       IN Return([x2 EXCEPT !.negd = @ - 1], IF ok THEN "fail" ELSE "ok")
    \* terminals.py: Push - no restore on failure
    [] F.f = "push" -> IF ok THEN LET v == SubSeq(inp, F.start + 1, x.pos)
                                  IN Return(MergeBuf([x EXCEPT !.ustk = Append(@, v), !.dstk = D!PushF(@, v)]), "ok")
                       ELSE Return(DropBuf(x), "fail")
    \* state.py: parse_trivia - WHITESPACE matched: again; else COMMENT matched: again; else stop
    [] F.f = "trivia" -> IF ok THEN Replace(MergeBuf(Commit(x)), <<[F EXCEPT !.ph = "start"]>>)
                         ELSE LET x1 == DropBuf(Restore(x))
                              IN IF F.ph = "ws" /\ "COMMENT" \in DOMAIN g
                                 THEN Replace(NewBuf(Checkpoint(x1)), <<[F EXCEPT !.ph = "cm"], EvalF(Ref("COMMENT"))>>)
                                 ELSE [x1 EXCEPT !.ctl = ButLast(@), !.ret = "none", !.supp = F.prev]

\* parse_trivia entered (or looping): nothing when atomic or when neither rule exists
TriviaStart(x, F) ==
  IF x.adepth > 0 \/ ~HasTrivia(g) THEN [x EXCEPT !.ctl = ButLast(@)]
  \* "with self.suppress_failures()": implicit rules never contribute to the reported failure
  \* the block restores the PREVIOUS value on exit (implicit rules nest when WHITESPACE / COMMENT reach a ! rule): the frame
  \* remembers it when the block is entered (phase "start" of a fresh frame), not when the loop comes round again
  ELSE LET F1 == IF F.fresh THEN [F EXCEPT !.prev = x.supp, !.fresh = FALSE] ELSE F
           xs == [x EXCEPT !.supp = TRUE]
       IN IF "WHITESPACE" \in DOMAIN g
          THEN Replace(NewBuf(Checkpoint(xs)), <<[F1 EXCEPT !.ph = "ws"], EvalF(Ref("WHITESPACE"))>>)
          ELSE Replace(NewBuf(Checkpoint(xs)), <<[F1 EXCEPT !.ph = "cm"], EvalF(Ref("COMMENT"))>>)

Step(x) ==
  LET F == TopOf(x.ctl)
  IN IF x.ret = "none"
     THEN IF F.f = "eval" THEN EvalStep(x, F.e) ELSE TriviaStart(x, F)
     ELSE ReturnStep(x, F)

-----------------------------------------------------------------------------
MInit(rule, start) ==
      [ctl |-> <<EvalF(Ref(rule))>>, ret |-> "none",
       pos |-> start, ustk |-> <<>>, rstk |-> <<>>, adepth |-> 0,
       usnaps |-> <<>>, rsnaps |-> <<>>, asnaps |-> <<>>, poshist |-> <<>>,
       bufs |-> << <<>> >>, tr |-> <<>>,
       fp |-> -1, negd |-> 0, supp |-> FALSE,
       dstk |-> D!St(<<>>, <<>>, <<>>), tags |-> <<>>]
M0 == MInit("r", k)

Init == /\ g \in Pick(Grammars)
        /\ inp \in Inputs
        /\ k \in StartsOf(inp)
        /\ m = M0
Next == m.ctl # <<>> /\ m' = Step(m) /\ UNCHANGED <<g, inp, k>>
Spec == Init /\ [][Next]_vars

-----------------------------------------------------------------------------
Halted == m.ctl = <<>>
Result == IF m.ret = "ok" THEN [ok |-> TRUE, pairs |-> m.bufs[1]] ELSE [ok |-> FALSE]
RECURSIVE Untag(_)
Untag(ps) == [i \in 1..Len(ps) |-> <<ps[i][1], ps[i][2], ps[i][3], Untag(ps[i][4])>>]
UntaggedResult == IF m.ret = "ok" THEN [ok |-> TRUE, pairs |-> Untag(m.bufs[1])] ELSE [ok |-> FALSE]

\* the checkpoint protocol computes the by-value semantics (PestSem has no tags: which pair a tag lands on is pinned by no
\* statement; the machine models what the code does and the harness compares it with the code)
Refines == Halted => UntaggedResult = Outcome(g, "r", inp, k)

\* C06: every tag in a returned tree is a tag written in the grammar; no tag is pending when parse() returns
RECURSIVE TagsOf(_), TagsIn(_)
TagsOf(e) == CASE e.k = "tag" -> {e.t} \cup TagsOf(e.e)
               [] e.k \in {"seq", "alt"} -> UNION {TagsOf(e.es[i]) : i \in 1..Len(e.es)}
               [] e.k \in {"opt", "star", "plus", "exact", "min", "max", "minmax", "and", "not", "push"} -> TagsOf(e.e)
               [] OTHER -> {}
TagsIn(ps) == UNION {(IF ps[i][5] = "" THEN {} ELSE {ps[i][5]}) \cup TagsIn(ps[i][4]) : i \in 1..Len(ps)}
TagsFromGrammar == (Halted /\ m.ret = "ok") => TagsIn(m.bufs[1]) \subseteq UNION {TagsOf(g[n].body) : n \in DOMAIN g}

\* nothing is left open when parse() returns or raises
Balanced == Halted => /\ m.poshist = <<>> /\ m.usnaps = <<>> /\ m.rsnaps = <<>> /\ m.asnaps = <<>>
                      /\ m.rstk = <<>> /\ m.adepth = 0 /\ Len(m.bufs) = 1 /\ m.tags = <<>>

Backtracking(F) == F.f \in {"alt", "opt", "star", "and", "not"} \/ (F.f = "trivia" /\ F.ph \in {"ws", "cm"})
NOpen(p(_)) == Cardinality({i \in 1..Len(m.ctl) : p(m.ctl[i])})
IsSwitch(F) == F.f = "rule" /\ Switches(F.n)
HasBuf(F)   == F.f \in {"rule", "seq", "alt", "opt", "star", "and", "not", "push"} \/ (F.f = "trivia" /\ F.ph \in {"ws", "cm"})
Discipline == /\ Len(m.poshist) = NOpen(Backtracking)
              /\ Len(m.usnaps) = Len(m.poshist) /\ Len(m.rsnaps) = Len(m.poshist)
              /\ Len(m.asnaps) = Len(m.poshist) + NOpen(IsSwitch)
              /\ Len(m.bufs) = 1 + NOpen(HasBuf)
              /\ Len(m.rstk) = NOpen(LAMBDA F : F.f = "rule")

\* every restore returns to the registers of the matching checkpoint (matching = nesting)
RestoreExact ==
  Halted =>
  LET tr == m.tr
      \* index of the checkpoint matching event j (a restore or ok): scan back counting nesting
      RECURSIVE Back(_, _)
      Back(j, depth) == IF tr[j].op = "checkpoint" THEN (IF depth = 0 THEN j ELSE Back(j - 1, depth - 1))
                        ELSE Back(j - 1, depth + 1)
  IN \A j \in 1..Len(tr) :
       tr[j].op = "restore" =>
         LET cp == tr[Back(j - 1, 0)]
         IN tr[j].pos = cp.pos /\ tr[j].ustk = cp.ustk /\ tr[j].rdepth = cp.rdepth /\ tr[j].adepth = cp.adepth

\* the delta-encoded stack shows what the full copies show, in every state of every parse; nothing is left in its rewind log
DeltaAgrees == /\ m.dstk.items = m.ustk
               /\ Len(m.dstk.lengths) = Len(m.usnaps)
               /\ Halted => (m.dstk.popped = <<>> /\ m.dstk.lengths = <<>>)

\* C13 on the design: what a failed parse() reports as furthest position
FurthestInRange == /\ m.fp = -1 \/ (k <= m.fp /\ m.fp <= Len(inp))
                   /\ Halted => (m.negd = 0 /\ ~m.supp)

\* ---- emission for the conformance harness -----------------------------------------
OutJ(o) == IF o.ok THEN o.pairs ELSE 0     \* pairs as <<rule, start, end, children, tag>>
Emit == Halted => PrintT(ToJson([g |-> g, inp |-> inp, k |-> k, out |-> OutJ(Result), tr |-> m.tr, fp |-> m.fp]))
=============================================================================
