------------------------------ MODULE Families ------------------------------
(***************************************************************************)
(* The behaviour that evaluates the reference semantics (PestSem) on every   *)
(* grammar of a bounded family (FamilyDefs) and emits the expected outcomes  *)
(* for replay into the implementation.                                      *)
(*                                                                         *)
(* One initial state per grammar; one Run step evaluates Outcome for every    *)
(* input and start position; invariants check the reference's own           *)
(* properties on every case; Emit prints one JSON line per grammar:          *)
(*   [g |-> grammar, cases |-> << <<input, k, outcome>> >>]                  *)
(***************************************************************************)
EXTENDS FamilyDefs

-----------------------------------------------------------------------------
VARIABLES g, phase, res
vars == <<g, phase, res>>

Init == g \in Pick(Grammars) /\ phase = "new" /\ res = <<>>

\* all (input, start) cases, in one fixed order (constant: evaluated once)
CaseSeq == SetToSeq({cs \in Inputs \X (0..MaxLen) : cs[2] \in StartsOf(cs[1])})

Run == /\ phase = "new"
       /\ phase' = "done"
       /\ res' = [i \in 1..Len(CaseSeq) |-> Outcome(g, "r", CaseSeq[i][1], CaseSeq[i][2])]
       /\ UNCHANGED g
Spec == Init /\ [][Run]_vars

\* ---- properties of the reference, checked on every case -----------------------
Done == phase = "done"
N == Len(CaseSeq)
RefTreeWF     == Done => \A i \in 1..N : TreeWF(res[i], CaseSeq[i][1], CaseSeq[i][2])
RefSingleRoot == Done => \A i \in 1..N : SingleRoot(g, "r", res[i], CaseSeq[i][2])
\* C16 on the reference: start k == suffix shifted (grammars without SOI)
SoiFree == \A n \in DOMAIN g : ~UsesSoi(g[n].body)
IndexOf(cs) == CHOOSE i \in 1..N : CaseSeq[i] = cs
RefShift == (Done /\ Starts = "all" /\ SoiFree) =>
              \A i \in 1..N : res[i] = ShiftO(res[IndexOf(<<Suffix(CaseSeq[i][1], CaseSeq[i][2]), 0>>)], CaseSeq[i][2])

\* ---- emission ---------------------------------------------------------------------
OutJ(o) == IF o.ok THEN o.pairs ELSE 0
Emit == Done => PrintT(ToJson([g |-> g, cases |-> [i \in 1..N |-> <<CaseSeq[i][1], CaseSeq[i][2], OutJ(res[i])>>]]))
=============================================================================
