------------------------------ MODULE Families ------------------------------
(***************************************************************************)
(* The bounded families of grammars and inputs that TLC enumerates, and the  *)
(* behaviour that evaluates the reference semantics on each of them and      *)
(* emits the expected outcomes for replay into the implementation.           *)
(*                                                                         *)
(* One initial state per grammar; one Run step evaluates Outcome for every    *)
(* input and start position; invariants check the reference's own           *)
(* properties on every case; Emit prints one JSON line per grammar:          *)
(*   [g |-> grammar, rule |-> start rule, cases |-> << <<input, k, outcome>> >>] *)
(***************************************************************************)
EXTENDS PestSem, Json, Randomization, SequencesExt

CONSTANTS
  Family,     \* which family (string)
  MaxLen,     \* inputs: all strings over the family's alphabet up to this length
  Starts,     \* "zero": start_pos = 0 only;  "all": every 0..Len(input)
  Sample      \* 0 = whole family; n > 0 = a pseudo-random subset of n grammars (TLC -seed)

a == 97   b == 98   A == 65   sp == 32   lt == 60   gt == 62   one == 49   nl == 10   c == 99

-----------------------------------------------------------------------------
\* Syntactic "must consume" (conservative): the domain of repetition bodies (WellFormed)
RECURSIVE Prog(_)
Prog(e) ==
  CASE e.k \in {"str", "istr"} -> Len(e.s) >= 1
    [] e.k \in {"range", "cls", "any"} -> TRUE
    [] e.k = "ref" -> TRUE            \* every helper rule of these families consumes
    [] e.k = "seq" -> \E i \in 1..Len(e.es) : Prog(e.es[i])
    [] e.k = "alt" -> \A i \in 1..Len(e.es) : Prog(e.es[i])
    [] e.k \in {"plus", "exact", "min", "push"} -> Prog(e.e)
    [] e.k = "minmax" -> e.m >= 1 /\ Prog(e.e)
    [] OTHER -> FALSE

Reps(S)  == LET P == {x \in S : Prog(x)}
            IN {Star(x) : x \in P} \cup {Plus(x) : x \in P} \cup {Exact(x, 2) : x \in P}
               \cup {MinR(x, 2) : x \in P} \cup {MaxR(x, 2) : x \in P} \cup {MinMax(x, 1, 2) : x \in P}
Preds(S) == {AndP(x) : x \in S} \cup {NotP(x) : x \in S}
Un(S)    == {Opt(x) : x \in S} \cup Reps(S) \cup Preds(S)
Bin(S, T) == {SeqE(<<x, y>>) : x \in S, y \in T} \cup {AltE(<<x, y>>) : x \in S, y \in T}
Tri(S)   == {SeqE(<<x, y, z>>) : x \in S, y \in S, z \in S} \cup {AltE(<<x, y, z>>) : x \in S, y \in S, z \in S}

Strings(alpha, n) == UNION {[1..m -> alpha] : m \in 0..n}

Pick(S) == IF Sample = 0 \/ Sample >= Cardinality(S) THEN S ELSE RandomSubset(Sample, S)

-----------------------------------------------------------------------------
\* ---- family "core": C03 (no trivia, no stack) ------------------------------
\*   r = { BODY }      s = m{ "a" ~ "b"? }  (m normal or silent)     t = { "a" ~ t | "b" }
SBody == SeqE(<<Str(<<a>>), Opt(Str(<<b>>))>>)
TBody == AltE(<<SeqE(<<Str(<<a>>), Ref("t")>>), Str(<<b>>)>>)

CoreAtoms  == {Str(<<a>>), Str(<<b>>), Str(<<a, b>>), IStr(<<a>>), Rng(a, b), AnyC, Cls("ASCII_ALPHA_UPPER"),
               Soi, Eoi, Ref("s"), Ref("t")}
CoreAtomsS == {Str(<<a>>), Str(<<a, b>>), AnyC, Ref("s")}          \* reduced set for the third level
CoreT2 == CoreAtoms \cup Un(CoreAtoms) \cup Bin(CoreAtoms, CoreAtoms)
CoreT3 == Un(CoreT2) \cup Bin(CoreT2, CoreAtomsS) \cup Bin(CoreAtomsS, CoreT2) \cup Tri(CoreAtomsS)

CoreG(body, sm) == [r |-> Rule("", body), s |-> Rule(sm, SBody), t |-> Rule("", TBody)]
CoreAlpha == {a, b, A}

FamCore2 == {CoreG(x, sm) : x \in CoreT2, sm \in {"", "_"}}
FamCore3 == {CoreG(x, sm) : x \in CoreT3 \ CoreT2, sm \in {"", "_"}}

\* ---- family "trivia": C04 ---------------------------------------------------
\*   r = m0{ BODY }   s = m1{ "a" ~ u }   u = m2{ "a" ~ "a"? }   + WHITESPACE / COMMENT per config
WsBody  == Str(<<sp>>)
CmBody  == SeqE(<<Str(<<lt>>), Str(<<gt>>)>>)                  \* two-element body: "<" alone is unterminated
Ws2Body == SeqE(<<Str(<<sp>>), Opt(Str(<<sp>>))>>)
TriviaCfgs == {"ws", "WS", "cm", "CM", "ws+cm", "WS+cm", "ws2+CM"}    \* upper case = non-silent
TrivRules(cfg) ==
  CASE cfg = "none"   -> <<>>
    [] cfg = "ws"     -> [WHITESPACE |-> Rule("_", WsBody)]
    [] cfg = "WS"     -> [WHITESPACE |-> Rule("", WsBody)]
    [] cfg = "cm"     -> [COMMENT |-> Rule("_", CmBody)]
    [] cfg = "CM"     -> [COMMENT |-> Rule("", CmBody)]
    [] cfg = "ws+cm"  -> [WHITESPACE |-> Rule("_", WsBody), COMMENT |-> Rule("_", CmBody)]
    [] cfg = "WS+cm"  -> [WHITESPACE |-> Rule("", WsBody), COMMENT |-> Rule("_", CmBody)]
    [] cfg = "ws2+CM" -> [WHITESPACE |-> Rule("_", Ws2Body), COMMENT |-> Rule("", CmBody)]

Merge(f, h) == [x \in DOMAIN f \cup DOMAIN h |-> IF x \in DOMAIN f THEN f[x] ELSE h[x]]

TrAtoms == {Str(<<a>>), Ref("s"), AnyC}
TrT1 == TrAtoms \cup {Eoi}
TrT2 == TrT1 \cup Un(TrAtoms) \cup Bin(TrT1, TrT1)
TrT3 == Un(TrT2) \cup Bin(TrT2, {Str(<<a>>), Ref("s")}) \cup Bin({Str(<<a>>), Ref("s")}, TrT2)
Mods == {"", "_", "@", "$", "!"}
TrG(body, m0, m1, m2, cfg) ==
  Merge([r |-> Rule(m0, body), s |-> Rule(m1, SeqE(<<Str(<<a>>), Ref("u")>>)),
         u |-> Rule(m2, SeqE(<<Str(<<a>>), Opt(Str(<<a>>))>>))], TrivRules(cfg))
TrAlpha == {a, sp, lt, gt}

\* every body x every trivia config, plain modifiers
FamTrivia2 == {TrG(x, "", "", "", cfg) : x \in TrT2, cfg \in TriviaCfgs}
FamTrivia3 == {TrG(x, "", "", "", cfg) : x \in TrT3 \ TrT2, cfg \in {"ws", "WS+cm", "CM"}}
\* every modifier triple x a spanning set of bodies x two trivia configs
ModBodies == {Ref("s"), SeqE(<<Str(<<a>>), Ref("s")>>), SeqE(<<Ref("s"), Str(<<a>>)>>), Star(Ref("s")), Plus(Str(<<a>>)),
              SeqE(<<Ref("s"), Eoi>>), MaxR(Ref("s"), 2), SeqE(<<Str(<<a>>), Star(Str(<<a>>))>>), AltE(<<Ref("u"), Ref("s")>>),
              SeqE(<<Ref("u"), Ref("WHITESPACE"), Ref("u")>>)}
FamMods == {TrG(x, m0, m1, m2, cfg) : x \in ModBodies, m0 \in Mods, m1 \in Mods, m2 \in Mods, cfg \in {"WS", "ws+cm"}}

\* ---- family "stack": C05 ------------------------------------------------------
\*   r = { SETUP ~ MID ~ PROBE }   stack operations inside every backtracking context
StkOps  == {PushE(Str(<<a>>)), PushE(Rng(a, b)), PushLit(<<b>>), PeekT, PopT, DropT, PeekAllT, PopAllT,
            PeekSl(FALSE, 0, FALSE, 0), PeekSl(TRUE, 0, TRUE, 1), PeekSl(TRUE, -1, FALSE, 0)}
StkAtoms == StkOps \cup {Str(<<a>>), Str(<<b>>)}
StkSeq2 == {SeqE(<<x, y>>) : x \in StkOps, y \in StkAtoms} \cup {SeqE(<<Str(<<a>>), y>>) : y \in StkOps}
StkBase == StkOps \cup StkSeq2
StkCtx(x) == {x, Opt(x), AndP(x), NotP(x), AltE(<<x, Str(<<a>>)>>), AltE(<<SeqE(<<x, Str(<<b>>)>>), x>>),
              Opt(SeqE(<<x, Str(<<b>>)>>)), NotP(NotP(x)), AndP(SeqE(<<x, Str(<<b>>)>>))}
StkRep(x) == IF Prog(x) THEN {Star(x), Plus(x), MaxR(x, 2), Star(SeqE(<<x, Str(<<b>>)>>))} ELSE {}
StkMid == UNION {StkCtx(x) \cup StkRep(x) : x \in StkBase}
StkSetups == {PushLit(<<a>>), SeqE(<<PushLit(<<a>>), PushE(AnyC)>>), Opt(PushE(Str(<<b>>)))}
StkProbes == {PeekAllT, SeqE(<<PopT, Opt(PopT)>>), SeqE(<<DropT, NotP(DropT)>>), Star(SeqE(<<AnyC, Opt(PeekT)>>))}
StkG(su, mid, pr) == [r |-> Rule("", SeqE(<<su, mid, pr>>))]
StkAlpha == {a, b}
FamStack == {StkG(su, mid, pr) : su \in StkSetups, mid \in StkMid, pr \in StkProbes}

\* a PEEK[a..b] whose indices can fall outside the stack is outside the checked domain:
\* these families only use [..], [0..1] after a guaranteed push, [-1..] after a guaranteed push.
\* (the first setup alternatives push at least one entry; Opt(PUSH("b")) may leave it empty, so
\*  slices with explicit indices are only combined with the guaranteed setups)
RECURSIVE HasIdxSlice(_)
HasIdxSlice(e) ==
  CASE e.k = "peekslice" -> e.ha \/ e.hb
    [] e.k \in {"seq", "alt"} -> \E i \in 1..Len(e.es) : HasIdxSlice(e.es[i])
    [] e.k \in {"opt", "star", "plus", "exact", "min", "max", "minmax", "and", "not", "push"} -> HasIdxSlice(e.e)
    [] OTHER -> FALSE
FamStackWF == {g \in FamStack : ~(g.r.body.es[1].k = "opt" /\ HasIdxSlice(g.r.body.es[2]))}

-----------------------------------------------------------------------------
Grammars ==
  CASE Family = "core2"   -> FamCore2
    [] Family = "core3"   -> FamCore3
    [] Family = "trivia2" -> FamTrivia2
    [] Family = "trivia3" -> FamTrivia3
    [] Family = "mods"    -> FamMods
    [] Family = "stack"   -> FamStackWF

Alpha ==
  CASE Family \in {"core2", "core3"} -> CoreAlpha
    [] Family \in {"trivia2", "trivia3", "mods"} -> TrAlpha
    [] Family = "stack" -> StkAlpha

Inputs == Strings(Alpha, MaxLen)
StartsOf(inp) == IF Starts = "all" THEN 0..Len(inp) ELSE {0}

-----------------------------------------------------------------------------
VARIABLES g, phase, res
vars == <<g, phase, res>>

Init == g \in Pick(Grammars) /\ phase = "new" /\ res = <<>>

\* all (input, start) cases, in one fixed order (constant: evaluated once)
CaseSeq == SetToSeq({cs \in Inputs \X (0..MaxLen) : cs[2] \in StartsOf(cs[1])})

Run == /\ phase = "new"
       /\ phase' = "done"
       /\ res' = [i \in 1..Len(CaseSeq) |-> Outcome(g, "r", CaseSeq[i][1], CaseSeq[i][2])]
       /\ UNCHANGED g
Spec == Init /\ [][Run]_vars

\* ---- properties of the reference, checked on every case -----------------------
Done == phase = "done"
N == Len(CaseSeq)
RefTreeWF     == Done => \A i \in 1..N : TreeWF(res[i], CaseSeq[i][1], CaseSeq[i][2])
RefSingleRoot == Done => \A i \in 1..N : SingleRoot(g, "r", res[i], CaseSeq[i][2])
\* C16 on the reference: start k == suffix shifted (grammars without SOI)
RECURSIVE UsesSoi(_)
UsesSoi(e) ==
  CASE e.k = "soi" -> TRUE
    [] e.k \in {"seq", "alt"} -> \E i \in 1..Len(e.es) : UsesSoi(e.es[i])
    [] e.k \in {"opt", "star", "plus", "exact", "min", "max", "minmax", "and", "not", "push"} -> UsesSoi(e.e)
    [] OTHER -> FALSE
SoiFree == \A n \in DOMAIN g : ~UsesSoi(g[n].body)
IndexOf(cs) == CHOOSE i \in 1..N : CaseSeq[i] = cs
RefShift == (Done /\ Starts = "all" /\ SoiFree) =>
              \A i \in 1..N : res[i] = ShiftO(res[IndexOf(<<Suffix(CaseSeq[i][1], CaseSeq[i][2]), 0>>)], CaseSeq[i][2])

\* ---- emission ---------------------------------------------------------------------
OutJ(o) == IF o.ok THEN o.pairs ELSE 0
Emit == Done => PrintT(ToJson([g |-> g, cases |-> [i \in 1..N |-> <<CaseSeq[i][1], CaseSeq[i][2], OutJ(res[i])>>]]))
=============================================================================
