------------------------------ MODULE Families ------------------------------
(***************************************************************************)
(* The bounded families of grammars and inputs that TLC enumerates, and the  *)
(* behaviour that evaluates the reference semantics on each of them and      *)
(* emits the expected outcomes for replay into the implementation.           *)
(*                                                                         *)
(* One initial state per grammar; one Run step evaluates Outcome for every    *)
(* input and start position; invariants check the reference's own           *)
(* properties on every case; Emit prints one JSON line per grammar:          *)
(*   [g |-> grammar, rule |-> start rule, cases |-> << <<input, k, outcome>> >>] *)
(***************************************************************************)
EXTENDS PestSem, Json, Randomization, SequencesExt

CONSTANTS
  Family,     \* which family (string)
  MaxLen,     \* inputs: all strings over the family's alphabet up to this length
  Starts,     \* "zero": start_pos = 0 only;  "all": every 0..Len(input)
  Sample      \* 0 = whole family; n > 0 = a pseudo-random subset of n grammars (TLC -seed)

a == 97   b == 98   A == 65   sp == 32   lt == 60   gt == 62   one == 49   nl == 10   c == 99

-----------------------------------------------------------------------------
\* Syntactic "must consume" (conservative): the domain of repetition bodies (WellFormed)
RECURSIVE Prog(_)
Prog(e) ==
  CASE e.k \in {"str", "istr"} -> Len(e.s) >= 1
    [] e.k \in {"range", "cls", "any"} -> TRUE
    [] e.k = "ref" -> TRUE            \* every helper rule of these families consumes
    [] e.k = "seq" -> \E i \in 1..Len(e.es) : Prog(e.es[i])
    [] e.k = "alt" -> \A i \in 1..Len(e.es) : Prog(e.es[i])
    [] e.k \in {"plus", "exact", "min", "push", "tag"} -> Prog(e.e)
    [] e.k = "minmax" -> e.m >= 1 /\ Prog(e.e)
    [] OTHER -> FALSE

Reps(S)  == LET P == {x \in S : Prog(x)}
            IN {Star(x) : x \in P} \cup {Plus(x) : x \in P} \cup {Exact(x, 2) : x \in P}
               \cup {MinR(x, 2) : x \in P} \cup {MaxR(x, 2) : x \in P} \cup {MinMax(x, 1, 2) : x \in P}
Preds(S) == {AndP(x) : x \in S} \cup {NotP(x) : x \in S}
Un(S)    == {Opt(x) : x \in S} \cup Reps(S) \cup Preds(S)
Bin(S, T) == {SeqE(<<x, y>>) : x \in S, y \in T} \cup {AltE(<<x, y>>) : x \in S, y \in T}
Tri(S)   == {SeqE(<<x, y, z>>) : x \in S, y \in S, z \in S} \cup {AltE(<<x, y, z>>) : x \in S, y \in S, z \in S}

Strings(alpha, n) == UNION {[1..m -> alpha] : m \in 0..n}

Pick(S) == IF Sample = 0 \/ Sample >= Cardinality(S) THEN S ELSE RandomSubset(Sample, S)

-----------------------------------------------------------------------------
\* ---- family "core": C03 (no trivia, no stack) ------------------------------
\*   r = { BODY }      s = m{ "a" ~ "b"? }  (m normal or silent)     t = { "a" ~ t | "b" }
SBody == SeqE(<<Str(<<a>>), Opt(Str(<<b>>))>>)
TBody == AltE(<<SeqE(<<Str(<<a>>), Ref("t")>>), Str(<<b>>)>>)

CoreAtoms  == {Str(<<a>>), Str(<<b>>), Str(<<a, b>>), IStr(<<a>>), Rng(a, b), AnyC, Cls("ASCII_ALPHA_UPPER"),
               Soi, Eoi, Ref("s"), Ref("t")}
CoreAtomsS == {Str(<<a>>), Str(<<a, b>>), AnyC, Ref("s")}          \* reduced set for the third level
CoreT2 == CoreAtoms \cup Un(CoreAtoms) \cup Bin(CoreAtoms, CoreAtoms)
CoreT3 == Un(CoreT2) \cup Bin(CoreT2, CoreAtomsS) \cup Bin(CoreAtomsS, CoreT2) \cup Tri(CoreAtomsS)

CoreG(body, sm) == [r |-> Rule("", body), s |-> Rule(sm, SBody), t |-> Rule("", TBody)]
CoreAlpha == {a, b, A}

FamCore2 == {CoreG(x, sm) : x \in CoreT2, sm \in {"", "_"}}
FamCore3 == {CoreG(x, sm) : x \in CoreT3 \ CoreT2, sm \in {"", "_"}}

\* ---- family "trivia": C04 ---------------------------------------------------
\*   r = m0{ BODY }   s = m1{ "a" ~ u }   u = m2{ "a" ~ "a"? }   + WHITESPACE / COMMENT per config
WsBody  == Str(<<sp>>)
CmBody  == SeqE(<<Str(<<lt>>), Str(<<gt>>)>>)                  \* two-element body: "<" alone is unterminated
Ws2Body == SeqE(<<Str(<<sp>>), Opt(Str(<<sp>>))>>)
TriviaCfgs == {"ws", "WS", "cm", "CM", "ws+cm", "WS+cm", "ws2+CM"}    \* upper case = non-silent
TrivRules(cfg) ==
  CASE cfg = "none"   -> <<>>
    [] cfg = "ws"     -> [WHITESPACE |-> Rule("_", WsBody)]
    [] cfg = "WS"     -> [WHITESPACE |-> Rule("", WsBody)]
    [] cfg = "cm"     -> [COMMENT |-> Rule("_", CmBody)]
    [] cfg = "CM"     -> [COMMENT |-> Rule("", CmBody)]
    [] cfg = "ws+cm"  -> [WHITESPACE |-> Rule("_", WsBody), COMMENT |-> Rule("_", CmBody)]
    [] cfg = "WS+cm"  -> [WHITESPACE |-> Rule("", WsBody), COMMENT |-> Rule("_", CmBody)]
    [] cfg = "ws2+CM" -> [WHITESPACE |-> Rule("_", Ws2Body), COMMENT |-> Rule("", CmBody)]

Merge(f, h) == [x \in DOMAIN f \cup DOMAIN h |-> IF x \in DOMAIN f THEN f[x] ELSE h[x]]

TrAtoms == {Str(<<a>>), Ref("s"), AnyC}
TrT1 == TrAtoms \cup {Eoi}
TrT2 == TrT1 \cup Un(TrAtoms) \cup Bin(TrT1, TrT1)
TrT3 == Un(TrT2) \cup Bin(TrT2, {Str(<<a>>), Ref("s")}) \cup Bin({Str(<<a>>), Ref("s")}, TrT2)
Mods == {"", "_", "@", "$", "!"}
TrG(body, m0, m1, m2, cfg) ==
  Merge([r |-> Rule(m0, body), s |-> Rule(m1, SeqE(<<Str(<<a>>), Ref("u")>>)),
         u |-> Rule(m2, SeqE(<<Str(<<a>>), Opt(Str(<<a>>))>>))], TrivRules(cfg))
TrAlpha == {a, sp, lt, gt}

\* every body x every trivia config, plain modifiers
FamTrivia2 == {TrG(x, "", "", "", cfg) : x \in TrT2, cfg \in TriviaCfgs}
FamTrivia3 == {TrG(x, "", "", "", cfg) : x \in TrT3 \ TrT2, cfg \in {"ws", "WS+cm", "CM"}}
\* every modifier triple x a spanning set of bodies x two trivia configs
ModBodies == {Ref("s"), SeqE(<<Str(<<a>>), Ref("s")>>), SeqE(<<Ref("s"), Str(<<a>>)>>), Star(Ref("s")), Plus(Str(<<a>>)),
              SeqE(<<Ref("s"), Eoi>>), MaxR(Ref("s"), 2), SeqE(<<Str(<<a>>), Star(Str(<<a>>))>>), AltE(<<Ref("u"), Ref("s")>>),
              SeqE(<<Ref("u"), Ref("WHITESPACE"), Ref("u")>>)}
FamMods == {TrG(x, m0, m1, m2, cfg) : x \in ModBodies, m0 \in Mods, m1 \in Mods, m2 \in Mods, cfg \in {"WS", "ws+cm"}}

\* ---- family "stack": C05 ------------------------------------------------------
\*   r = { SETUP ~ MID ~ PROBE }   stack operations inside every backtracking context
StkOps  == {PushE(Str(<<a>>)), PushE(Rng(a, b)), PushLit(<<b>>), PeekT, PopT, DropT, PeekAllT, PopAllT,
            PeekSl(FALSE, 0, FALSE, 0), PeekSl(TRUE, 0, TRUE, 1), PeekSl(TRUE, -1, FALSE, 0)}
StkAtoms == StkOps \cup {Str(<<a>>), Str(<<b>>)}
StkSeq2 == {SeqE(<<x, y>>) : x \in StkOps, y \in StkAtoms} \cup {SeqE(<<Str(<<a>>), y>>) : y \in StkOps}
StkBase == StkOps \cup StkSeq2
StkCtx(x) == {x, Opt(x), AndP(x), NotP(x), AltE(<<x, Str(<<a>>)>>), AltE(<<SeqE(<<x, Str(<<b>>)>>), x>>),
              Opt(SeqE(<<x, Str(<<b>>)>>)), NotP(NotP(x)), AndP(SeqE(<<x, Str(<<b>>)>>))}
StkRep(x) == IF Prog(x) THEN {Star(x), Plus(x), MaxR(x, 2), Star(SeqE(<<x, Str(<<b>>)>>))} ELSE {}
StkMid == UNION {StkCtx(x) \cup StkRep(x) : x \in StkBase}
StkSetups == {PushLit(<<a>>), SeqE(<<PushLit(<<a>>), PushE(AnyC)>>), Opt(PushE(Str(<<b>>)))}
StkProbes == {PeekAllT, SeqE(<<PopT, Opt(PopT)>>), SeqE(<<DropT, NotP(DropT)>>), Star(SeqE(<<AnyC, Opt(PeekT)>>))}
StkG(su, mid, pr) == [r |-> Rule("", SeqE(<<su, mid, pr>>))]
StkAlpha == {a, b}
FamStack == {StkG(su, mid, pr) : su \in StkSetups, mid \in StkMid, pr \in StkProbes}

\* a PEEK[a..b] whose indices can fall outside the stack is outside the checked domain:
\* these families only use [..], [0..1] after a guaranteed push, [-1..] after a guaranteed push.
\* (the first setup alternatives push at least one entry; Opt(PUSH("b")) may leave it empty, so
\*  slices with explicit indices are only combined with the guaranteed setups)
RECURSIVE HasIdxSlice(_)
HasIdxSlice(e) ==
  CASE e.k = "peekslice" -> e.ha \/ e.hb
    [] e.k \in {"seq", "alt"} -> \E i \in 1..Len(e.es) : HasIdxSlice(e.es[i])
    [] e.k \in {"opt", "star", "plus", "exact", "min", "max", "minmax", "and", "not", "push", "tag"} -> HasIdxSlice(e.e)
    [] OTHER -> FALSE
FamStackWF == {g \in FamStack : ~(g.r.body.es[1].k = "opt" /\ HasIdxSlice(g.r.body.es[2]))}

\* ---- family "tags": C01 (tags are compared between interpreter and generated code) ----
\*   r = { BODY }   s = { "a" ~ "b"? }   v = _{ #t3 = s }     + silent WHITESPACE
TagAtoms == {Tag("t1", Ref("s")), Tag("t2", SeqE(<<Ref("s"), Str(<<b>>)>>)), Tag("t1", AltE(<<Ref("t"), Ref("s")>>)),
             Tag("t2", Ref("v")), Ref("s"), Ref("v"), Str(<<a>>)}
TagT2 == TagAtoms \cup Un(TagAtoms) \cup Bin(TagAtoms, TagAtoms)
TagT3 == {Tag("t4", SeqE(<<x, Ref("s")>>)) : x \in Un(TagAtoms)} \cup {Tag("t4", AltE(<<x, y>>)) : x \in TagAtoms, y \in Un(TagAtoms)}
         \cup {Opt(x) : x \in Bin(TagAtoms, TagAtoms)} \cup {Star(x) : x \in {y \in Bin(TagAtoms, TagAtoms) : Prog(y)}}
TagG(body, ws) == Merge([r |-> Rule("", body), s |-> Rule("", SBody), t |-> Rule("", TBody), v |-> Rule("_", Tag("t3", Ref("s")))],
                        IF ws THEN TrivRules("ws") ELSE <<>>)
FamTags == {TagG(x, ws) : x \in TagT2 \cup TagT3, ws \in BOOLEAN}

-----------------------------------------------------------------------------
\* ---- family "opt": C02, aimed at each optimizer pass ---------------------------------
\*   r = m{ BODY }   q = qm{ "b" | "ab" }   s = { "a" ~ "b"? }    + trivia per config
\* squash_choice: choices of literals / insensitive literals / ranges / classes, every order, shared prefixes
SqAtoms  == {Str(<<a>>), Str(<<b>>), Str(<<a, b>>), Str(<<b, a>>), IStr(<<a>>), IStr(<<a, b>>), Rng(a, b), Cls("ASCII_ALPHA_UPPER"), Ref("q")}
SqAtomsS == {Str(<<a>>), Str(<<a, b>>), IStr(<<b>>), Rng(a, a)}
SqChoices == {AltE(<<x, y>>) : x \in SqAtoms, y \in SqAtoms} \cup {AltE(<<x, y, z>>) : x \in SqAtomsS, y \in SqAtomsS, z \in SqAtomsS}
             \cup {AltE(<<x, AltE(<<y, z>>)>>) : x \in SqAtomsS, y \in SqAtomsS, z \in {Str(<<b>>), Ref("q")}}
SqBodies == UNION {{ch, SeqE(<<ch, Str(<<b>>)>>), SeqE(<<ch, Eoi>>), Star(ch), SeqE(<<Plus(ch), Str(<<a>>)>>)} : ch \in SqChoices}
\* skip: (!(x | y) ~ ANY)* and near misses
SkTargets == {Str(<<b>>), AltE(<<Str(<<b>>), Str(<<a, b>>)>>), Ref("q"), AltE(<<Ref("q"), Str(<<sp>>)>>), AltE(<<Str(<<b>>), Rng(a, a)>>),
              SeqE(<<Str(<<a>>), Str(<<b>>)>>), AltE(<<Str(<<b>>), AltE(<<Str(<<a, a>>), Str(<<sp>>)>>)>>)}
SkForms(x) == {Star(SeqE(<<NotP(x), AnyC>>)), Star(SeqE(<<NotP(x), AnyC, Opt(Str(<<a>>))>>)), Plus(SeqE(<<NotP(x), AnyC>>)),
               Star(SeqE(<<NotP(x), Rng(a, b)>>))}
SkBodies == UNION {{f, SeqE(<<f, Opt(Str(<<b>>))>>), SeqE(<<Str(<<a>>), f, Eoi>>), SeqE(<<f, Ref("s")>>)} : f \in UNION {SkForms(x) : x \in SkTargets}}
\* inline silent / inline built-in / unroll
InlBodies == {Ref("q"), SeqE(<<Ref("q"), Ref("q")>>), Star(Ref("q")), NotP(Ref("q")), SeqE(<<Ref("WHITESPACE"), Ref("q")>>), Plus(Ref("q")), MaxR(Ref("q"), 2),
              PushE(Ref("q")), SeqE(<<PushE(Ref("q")), PopT>>), Tag("t1", Ref("q")), AltE(<<Ref("q"), Ref("s")>>), MinR(Cls("ASCII_ALPHA_LOWER"), 2),
              SeqE(<<Cls("ASCII_HEX_DIGIT"), Cls("ASCII_ALPHANUMERIC")>>), AltE(<<Cls("ASCII_DIGIT"), Cls("ASCII_ALPHA")>>), SeqE(<<AnyC, Soi>>),
              Exact(AltE(<<Str(<<a>>), Ref("q")>>), 2), MinMax(Ref("s"), 1, 2), SeqE(<<Plus(Str(<<a>>)), Str(<<b>>)>>)}
OptTriv(cfg) ==
  CASE cfg = "none" -> <<>>
    [] cfg = "ws"   -> [WHITESPACE |-> Rule("_", Str(<<sp>>))]
    [] cfg = "ws|"  -> [WHITESPACE |-> Rule("_", AltE(<<Str(<<sp>>), Str(<<b, b>>)>>))]      \* fused into SKIP
    [] cfg = "WS|"  -> [WHITESPACE |-> Rule("", AltE(<<Str(<<sp>>), Str(<<b, b>>)>>))]
    [] cfg = "cm"   -> [COMMENT |-> Rule("_", SeqE(<<Str(<<sp>>), Opt(Str(<<sp>>))>>))]        \* fused into SKIP
    [] cfg = "ws+cm" -> [WHITESPACE |-> Rule("_", Str(<<sp>>)), COMMENT |-> Rule("_", Str(<<b, b>>))]
OptTrivs == {"none", "ws", "ws|", "WS|", "cm", "ws+cm"}
QBody == AltE(<<Str(<<b>>), Str(<<a, b>>)>>)
OptG(body, m, qm, cfg) == Merge([r |-> Rule(m, body), q |-> Rule(qm, QBody), s |-> Rule("", SBody)], OptTriv(cfg))
FamOptSq  == {OptG(x, m, "_", cfg) : x \in SqBodies, m \in {""}, cfg \in {"none", "ws"}}
FamOptSk  == {OptG(x, m, qm, cfg) : x \in SkBodies, m \in {"", "@"}, qm \in {"_", ""}, cfg \in {"none", "ws", "cm"}}
\* ---- family "nl": C13 (failures on multi-line inputs: at offset 0, at the end, on an empty line,
\*      after a trailing line break, inside predicates) ---------------------------------------------
NlAtoms == {Str(<<a>>), Str(<<nl>>), Str(<<a, nl>>), AnyC, Eoi, Ref("s"), NotP(Str(<<nl>>)), AndP(Str(<<a>>))}
NlT2 == NlAtoms \cup Un(NlAtoms) \cup Bin(NlAtoms, NlAtoms)
NlT3 == {SeqE(<<x, Str(<<b>>)>>) : x \in NlT2} \cup {SeqE(<<Star(AltE(<<Str(<<a>>), Str(<<nl>>)>>)), x>>) : x \in NlT2}
FamNl == {Merge([r |-> Rule(m, x), s |-> Rule("", SBody)], TrivRules(cfg)) : x \in NlT3, m \in {"", "@"}, cfg \in {"none", "ws"}}

RECURSIVE RefsOf(_)
RefsOf(e) ==
  CASE e.k = "ref" -> {e.n}
    [] e.k \in {"seq", "alt"} -> UNION {RefsOf(e.es[i]) : i \in 1..Len(e.es)}
    [] e.k \in {"opt", "star", "plus", "exact", "min", "max", "minmax", "and", "not", "push", "tag"} -> RefsOf(e.e)
    [] OTHER -> {}
RefsDefined(gr) == \A n \in DOMAIN gr : RefsOf(gr[n].body) \subseteq DOMAIN gr
FamOptInl == {x \in {OptG(x, m, qm, cfg) : x \in InlBodies, m \in {"", "@", "$"}, qm \in {"_", ""}, cfg \in OptTrivs} : RefsDefined(x)}
FamOptTrv == {OptG(x, "", "_", cfg) : x \in TrT2, cfg \in {"ws|", "WS|", "cm"}}

RECURSIVE UsesSoi(_)
UsesSoi(e) ==
  CASE e.k = "soi" -> TRUE
    [] e.k \in {"seq", "alt"} -> \E i \in 1..Len(e.es) : UsesSoi(e.es[i])
    [] e.k \in {"opt", "star", "plus", "exact", "min", "max", "minmax", "and", "not", "push", "tag"} -> UsesSoi(e.e)
    [] OTHER -> FALSE

Grammars ==
  CASE Family = "core2"   -> FamCore2
    [] Family = "core3"   -> FamCore3
    [] Family = "nl"      -> FamNl
    [] Family = "optsq"   -> FamOptSq
    [] Family = "optsk"   -> FamOptSk
    [] Family = "optinl"  -> FamOptInl
    [] Family = "opttrv"  -> FamOptTrv
    [] Family = "core2nosoi" -> {x \in FamCore2 : ~UsesSoi(x.r.body)}
    [] Family = "core3nosoi" -> {x \in FamCore3 : ~UsesSoi(x.r.body)}
    [] Family = "trivia2" -> FamTrivia2
    [] Family = "trivia3" -> FamTrivia3
    [] Family = "mods"    -> FamMods
    [] Family = "stack"   -> FamStackWF
    [] Family = "tags"    -> FamTags

Alpha ==
  CASE Family \in {"core2", "core3", "core2nosoi", "core3nosoi"} -> CoreAlpha
    [] Family \in {"trivia2", "trivia3", "mods"} -> TrAlpha
    [] Family = "stack" -> StkAlpha
    [] Family = "tags" -> {a, b, sp}
    [] Family \in {"optsq", "optsk", "optinl"} -> {a, b, sp, A}
    [] Family = "opttrv" -> {a, b, sp}
    [] Family = "nl" -> {a, b, nl, sp}

Inputs == Strings(Alpha, MaxLen)
StartsOf(inp) == IF Starts = "all" THEN 0..Len(inp) ELSE {0}

-----------------------------------------------------------------------------
VARIABLES g, phase, res
vars == <<g, phase, res>>

Init == g \in Pick(Grammars) /\ phase = "new" /\ res = <<>>

\* all (input, start) cases, in one fixed order (constant: evaluated once)
CaseSeq == SetToSeq({cs \in Inputs \X (0..MaxLen) : cs[2] \in StartsOf(cs[1])})

Run == /\ phase = "new"
       /\ phase' = "done"
       /\ res' = [i \in 1..Len(CaseSeq) |-> Outcome(g, "r", CaseSeq[i][1], CaseSeq[i][2])]
       /\ UNCHANGED g
Spec == Init /\ [][Run]_vars

\* ---- properties of the reference, checked on every case -----------------------
Done == phase = "done"
N == Len(CaseSeq)
RefTreeWF     == Done => \A i \in 1..N : TreeWF(res[i], CaseSeq[i][1], CaseSeq[i][2])
RefSingleRoot == Done => \A i \in 1..N : SingleRoot(g, "r", res[i], CaseSeq[i][2])
\* C16 on the reference: start k == suffix shifted (grammars without SOI)
SoiFree == \A n \in DOMAIN g : ~UsesSoi(g[n].body)
IndexOf(cs) == CHOOSE i \in 1..N : CaseSeq[i] = cs
RefShift == (Done /\ Starts = "all" /\ SoiFree) =>
              \A i \in 1..N : res[i] = ShiftO(res[IndexOf(<<Suffix(CaseSeq[i][1], CaseSeq[i][2]), 0>>)], CaseSeq[i][2])

\* ---- emission ---------------------------------------------------------------------
OutJ(o) == IF o.ok THEN o.pairs ELSE 0
Emit == Done => PrintT(ToJson([g |-> g, cases |-> [i \in 1..N |-> <<CaseSeq[i][1], CaseSeq[i][2], OutJ(res[i])>>]]))
=============================================================================
