---------------------------- MODULE LineColTrace ----------------------------
(***************************************************************************)
(* Code -> spec validation for C14 on long / non-ASCII texts: the harness     *)
(* logs, for every offset p = 0..len(text) in order, whether text[p-1] is a   *)
(* line break and what Position(text, p).line_col() returned.  The trace is   *)
(* accepted iff it is the behaviour of the line/column counter below, which   *)
(* is LineCol!Monotone unfolded into a machine (TLC checks that Monotone      *)
(* characterises LineCol in LineCol.tla).                                     *)
(* Event: [nl |-> 0/1 (ignored for the first event), line, col, tid]           *)
(* A new text starts with an event whose first field new = 1.                 *)
(***************************************************************************)
EXTENDS Integers, Sequences, Json, TLC, IOUtils

Trace == ndJsonDeserialize(IOEnv.TRACE_FILE)

VARIABLES l, line, col
vars == <<l, line, col>>

Init == l = 1 /\ line = 0 /\ col = 0

Start == /\ l <= Len(Trace) /\ Trace[l].new = 1
         /\ line' = 1 /\ col' = 1
Step  == /\ l <= Len(Trace) /\ Trace[l].new = 0
         /\ IF Trace[l].nl = 1 THEN line' = line + 1 /\ col' = 1
                               ELSE line' = line /\ col' = col + 1
Next == /\ (Start \/ Step)
        /\ line' = Trace[l].line /\ col' = Trace[l].col      \* what the code returned
        /\ l' = l + 1
Spec == Init /\ [][Next]_vars

TraceAccepted ==
  LET d == TLCGet("stats").diameter - 1
  IN /\ PrintT(<<"TRACE_RESULT", d, Len(Trace)>>)
     /\ d = Len(Trace)
=============================================================================
