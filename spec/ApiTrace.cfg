SPECIFICATION Spec
POSTCONDITION AllConsumed
CHECK_DEADLOCK FALSE
