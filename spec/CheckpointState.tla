-------------------------- MODULE CheckpointState --------------------------
(***************************************************************************)
(* Reference model of ParserState.checkpoint/ok/restore (C09, C05): the     *)
(* four backtrackable components and a LIFO of FULL COPIES of them.         *)
(*                                                                         *)
(*   pos    : int           current offset                                  *)
(*   ustk   : Seq(value)    user stack   (PUSH/POP/PEEK/DROP)               *)
(*   rstk   : Seq(value)    rule stack                                      *)
(*   adepth : int           atomic depth                                    *)
(*   cps    : Seq([pos, ustk, rstk, adepth])   checkpoints, innermost last  *)
(*                                                                         *)
(* ok()/restore() without a checkpoint raise IndexError (list.pop on the     *)
(* empty _pos_history) by contract, so they are not enabled then.            *)
(***************************************************************************)
EXTENDS Integers, Sequences

VARIABLES pos, ustk, rstk, adepth, cps

cvars == <<pos, ustk, rstk, adepth, cps>>

CInit == pos = 0 /\ ustk = <<>> /\ rstk = <<>> /\ adepth = 0 /\ cps = <<>>

Snap == [kind |-> "c", pos |-> pos, ustk |-> ustk, rstk |-> rstk, adepth |-> adepth]
Top_ == cps[Len(cps)]
Rest_ == SubSeq(cps, 1, Len(cps) - 1)

Checkpoint == cps' = Append(cps, Snap) /\ UNCHANGED <<pos, ustk, rstk, adepth>>
Ok         == cps # <<>> /\ Top_.kind = "c" /\ cps' = Rest_ /\ UNCHANGED <<pos, ustk, rstk, adepth>>
RestoreCp  == /\ cps # <<>> /\ Top_.kind = "c"
              /\ pos' = Top_.pos /\ ustk' = Top_.ustk /\ rstk' = Top_.rstk /\ adepth' = Top_.adepth
              /\ cps' = Rest_

SetPos(p)  == pos' = p /\ UNCHANGED <<ustk, rstk, adepth, cps>>
PushU(v)   == ustk' = Append(ustk, v) /\ UNCHANGED <<pos, rstk, adepth, cps>>
DropU      == ustk # <<>> /\ ustk' = SubSeq(ustk, 1, Len(ustk) - 1) /\ UNCHANGED <<pos, rstk, adepth, cps>>
ClearU     == ustk' = <<>> /\ UNCHANGED <<pos, rstk, adepth, cps>>
PushR(v)   == rstk' = Append(rstk, v) /\ UNCHANGED <<pos, ustk, adepth, cps>>
PopR       == rstk # <<>> /\ rstk' = SubSeq(rstk, 1, Len(rstk) - 1) /\ UNCHANGED <<pos, ustk, adepth, cps>>
AInc       == adepth' = adepth + 1 /\ UNCHANGED <<pos, ustk, rstk, cps>>
AZero      == adepth' = 0 /\ UNCHANGED <<pos, ustk, rstk, cps>>
\* "with state.atomic_checkpoint():" (rule.py, on entry to a rule that switches atomicity): a scope that saves the atomic depth
\* alone and restores it on exit; scopes and checkpoints nest properly (the with statement guarantees it)
AEnter     == cps' = Append(cps, [kind |-> "a", adepth |-> adepth]) /\ UNCHANGED <<pos, ustk, rstk, adepth>>
AExit      == /\ cps # <<>> /\ Top_.kind = "a"
              /\ adepth' = Top_.adepth /\ cps' = Rest_ /\ UNCHANGED <<pos, ustk, rstk>>
=============================================================================
