------------------------------- MODULE JsonDoc -------------------------------
(***************************************************************************)
(* C17 (JSON): RFC 8259 documents whose top level is an array or object, as a   *)
(* pushdown generator.  A behaviour emits the token kinds of one document:         *)
(*     "[" "]" "{" "}" "," ":"   structural tokens                                   *)
(*     "N" number, "S" string, "L" literal (true/false/null), "K" member name         *)
(* and carries the stack of open containers.  The token sequence IS the nesting /       *)
(* member-order skeleton.  The lexemes are the constants below (every production of       *)
(* RFC 8259's number, every escape of its string); the harness instantiates the i-th        *)
(* scalar of a document with lexeme number (i + rotation) of its list, joins the tokens       *)
(* with each white-space placement, and compares the bundled grammars' trees with             *)
(* json.loads (the oracle the statement names) and with this skeleton.                         *)
(***************************************************************************)
EXTENDS Integers, Sequences, FiniteSets, TLC, Json

CONSTANTS MaxToks, MaxDepth

NumLexemes == <<"0", "-0", "7", "12", "-305", "0.5", "-3.25", "10.001", "1e5", "1E5", "2e+3", "2E-3", "0e0", "-1.5e-2", "6.02E+23", "100",
                "1e00", "2E+05", "-1.5e-007", "0.0", "1.50", "10e010", "0.000", "9007199254740993", "-0.0e-0", "1E-0", "123456789012345678901234567890">>
StrLexemes == <<"\"\"", "\"a\"", "\"a b\"", "\"\\n\\t\\r\\b\\f\"", "\"\\\"\\\\\\/\"", "\"\\u00e9\\u0041\"", "\"\\uD83D\\uDE00\"", "\"{}[],:\"", "\"null\"", "\" \"">>
LitLexemes == <<"true", "false", "null">>
KeyLexemes == <<"\"a\"", "\"b\"", "\"\"", "\"k\\n\"", "\"a\"">>     \* duplicate names are legal JSON
Whitespace == <<"", " ", "\n\t\r ">>

VARIABLES toks, stack, st
vars == <<toks, stack, st>>

Init == toks = <<>> /\ stack = <<>> /\ st = "start"

Room(n) == Len(toks) + n + Len(stack) <= MaxToks      \* room for n tokens plus the closers still owed
Emit1(t) == toks' = Append(toks, t)
Top == stack[Len(stack)]
Pop == SubSeq(stack, 1, Len(stack) - 1)

OpenArray  == /\ st \in {"start", "first", "value"} /\ Len(stack) < MaxDepth /\ Room(2)
              /\ Emit1("[") /\ stack' = Append(stack, "A") /\ st' = "first"
OpenObject == /\ st \in {"start", "first", "value"} /\ Len(stack) < MaxDepth /\ Room(2)
              /\ Emit1("{") /\ stack' = Append(stack, "O") /\ st' = "firstkey"
Scalar(k)  == /\ st \in {"first", "value"} /\ Room(1)
              /\ Emit1(k) /\ st' = "after" /\ UNCHANGED stack
Key        == /\ st \in {"firstkey", "key"} /\ Room(3)
              /\ toks' = toks \o <<"K", ":">> /\ st' = "value" /\ UNCHANGED stack
CloseEmpty == /\ ((st = "first" /\ Top = "A") \/ (st = "firstkey" /\ Top = "O"))
              /\ Emit1(IF Top = "A" THEN "]" ELSE "}") /\ stack' = Pop /\ st' = "after"
Close      == /\ st = "after" /\ stack # <<>>
              /\ Emit1(IF Top = "A" THEN "]" ELSE "}") /\ stack' = Pop /\ st' = "after"
Comma      == /\ st = "after" /\ stack # <<>> /\ Room(IF Top = "A" THEN 2 ELSE 4)
              /\ Emit1(",") /\ st' = (IF Top = "A" THEN "value" ELSE "key") /\ UNCHANGED stack

Next == OpenArray \/ OpenObject \/ (\E k \in {"N", "S", "L"} : Scalar(k)) \/ Key \/ CloseEmpty \/ Close \/ Comma
Spec == Init /\ [][Next]_vars

Complete == st = "after" /\ stack = <<>>
\* generator sanity: brackets balance and a complete document never exceeds the bound
Balanced == LET opens == Cardinality({i \in 1..Len(toks) : toks[i] \in {"[", "{"}})
                closes == Cardinality({i \in 1..Len(toks) : toks[i] \in {"]", "}"}})
            IN opens - closes = Len(stack) /\ Len(toks) <= MaxToks
EmitDoc == Complete => PrintT(ToJson([toks |-> toks]))
EmitLex == (toks = <<>>) => PrintT(ToJson([lex |-> [N |-> NumLexemes, S |-> StrLexemes, L |-> LitLexemes, K |-> KeyLexemes, W |-> Whitespace]]))
=============================================================================
