------------------------------ MODULE CharSets ------------------------------
(***************************************************************************)
(* C12: what each character terminal DENOTES - a set of code points, kept as  *)
(* a canonical interval list (sorted, disjoint, non-adjacent) so that sets      *)
(* over U+0000..U+10FFFF stay small values - and the optimizer's character-      *)
(* class merge (choice.py: _optimize_char_class) transcribed and checked.         *)
(*                                                                         *)
(* Terms (PestAst kinds): range, str of length 1, istr of length 1 (ASCII          *)
(* letter: both cases), cls (ASCII_* by pest's documented definitions), any,        *)
(* alt of such terms (union).                                                       *)
(*                                                                         *)
(* TLC checks (config CharSetsAlgebra): over every family of <= 3 ranges and         *)
(* <= 2 singles in a small universe (every adjacency / overlap / containment          *)
(* pattern)   Set(Merge(singles, ranges)) = union of the parts,  and the result        *)
(* is canonical; and the relations between the ASCII classes.                          *)
(* Config CharSetsEmit prints Denote(term) for the probe family; the harness             *)
(* sweeps all 1,114,112 code points through the real library and compares.               *)
(***************************************************************************)
EXTENDS Integers, Sequences, FiniteSets, TLC, Json

CONSTANTS U,        \* size of the small universe for the algebra check
          Mode      \* "algebra" | "emit"

MaxCp == 1114111

\* ---- interval lists ---------------------------------------------------------------
Iv(lo, hi) == <<lo, hi>>
\* insert one interval into a canonical list, keeping it canonical
RECURSIVE Ins(_, _)
Ins(L, iv) ==
  IF L = <<>> THEN <<iv>>
  ELSE LET h == L[1]
       IN IF iv[2] + 1 < h[1] THEN <<iv>> \o L                                  \* strictly before, not adjacent
          ELSE IF h[2] + 1 < iv[1] THEN <<h>> \o Ins(Tail(L), iv)                \* strictly after
          ELSE Ins(Tail(L), Iv(IF h[1] < iv[1] THEN h[1] ELSE iv[1], IF h[2] > iv[2] THEN h[2] ELSE iv[2]))
RECURSIVE UnionL(_, _)
UnionL(A, B) == IF B = <<>> THEN A ELSE UnionL(Ins(A, B[1]), Tail(B))
Canonical(L) == \A i \in 1..Len(L) : L[i][1] <= L[i][2] /\ (i > 1 => L[i - 1][2] + 1 < L[i][1])
SetOf(L) == UNION {L[i][1]..L[i][2] : i \in 1..Len(L)}

\* ---- denotation of terms --------------------------------------------------------------
IsUpper(c) == c >= 65 /\ c <= 90
IsLower(c) == c >= 97 /\ c <= 122
ClassL(n) ==
  CASE n = "ASCII_DIGIT"         -> <<Iv(48, 57)>>
    [] n = "ASCII_NONZERO_DIGIT" -> <<Iv(49, 57)>>
    [] n = "ASCII_BIN_DIGIT"     -> <<Iv(48, 49)>>
    [] n = "ASCII_OCT_DIGIT"     -> <<Iv(48, 55)>>
    [] n = "ASCII_HEX_DIGIT"     -> <<Iv(48, 57), Iv(65, 70), Iv(97, 102)>>
    [] n = "ASCII_ALPHA_LOWER"   -> <<Iv(97, 122)>>
    [] n = "ASCII_ALPHA_UPPER"   -> <<Iv(65, 90)>>
    [] n = "ASCII_ALPHA"         -> <<Iv(65, 90), Iv(97, 122)>>
    [] n = "ASCII_ALPHANUMERIC"  -> <<Iv(48, 57), Iv(65, 90), Iv(97, 122)>>
    [] n = "ASCII"               -> <<Iv(0, 127)>>
RECURSIVE Denote(_)
Denote(e) ==
  CASE e.k = "range" -> IF e.lo <= e.hi THEN <<Iv(e.lo, e.hi)>> ELSE <<>>
    [] e.k = "str"   -> <<Iv(e.s[1], e.s[1])>>
    [] e.k = "istr"  -> LET c == e.s[1]
                        IN IF IsUpper(c) THEN UnionL(<<Iv(c, c)>>, <<Iv(c + 32, c + 32)>>)
                           ELSE IF IsLower(c) THEN UnionL(<<Iv(c - 32, c - 32)>>, <<Iv(c, c)>>)
                           ELSE <<Iv(c, c)>>
    [] e.k = "cls"   -> ClassL(e.n)
    [] e.k = "any"   -> <<Iv(0, MaxCp)>>
    [] e.k = "alt"   -> LET RECURSIVE Go(_, _)
                            Go(i, acc) == IF i > Len(e.es) THEN acc ELSE Go(i + 1, UnionL(acc, Denote(e.es[i])))
                        IN Go(1, <<>>)

\* ---- choice.py: _optimize_char_class(singles, ranges) transcribed -------------------------
\* normalise (drop reversed = empty ranges), sort, merge when s <= last.e + 1, drop covered singles;
\* the regex class it builds denotes  singles' (sorted, deduplicated)  union  merged
SortedRanges(R) == \* R: set of <<s, e>> (normalised); returns them sorted by (s, e)
  LET RECURSIVE Go(_)
      Go(S) == IF S = {} THEN <<>>
               ELSE LET m == CHOOSE x \in S : \A y \in S : x[1] < y[1] \/ (x[1] = y[1] /\ x[2] <= y[2])
                    IN <<m>> \o Go(S \ {m})
  IN Go(R)
MergeSorted(L) ==
  LET RECURSIVE Go(_, _)
      Go(i, acc) ==
        IF i > Len(L) THEN acc
        ELSE LET s == L[i][1]  e == L[i][2]  n == Len(acc)
             IN IF acc = <<>> \/ s > acc[n][2] + 1 THEN Go(i + 1, Append(acc, <<s, e>>))
                ELSE Go(i + 1, [acc EXCEPT ![n] = <<@[1], IF @[2] > e THEN @[2] ELSE e>>])
  IN Go(1, <<>>)
MergeClass(singles, ranges) == \* singles: set of code points, ranges: set of <<s, e>> (possibly reversed = empty)
  LET norm   == {r \in ranges : r[1] <= r[2]}
      merged == MergeSorted(SortedRanges(norm))
      kept   == {c \in singles : \A i \in 1..Len(merged) : ~(merged[i][1] <= c /\ c <= merged[i][2])}
  IN [singles |-> kept, merged |-> merged]
ClassSet(m) == m.singles \cup SetOf(m.merged)

-----------------------------------------------------------------------------
\* ---- the probe family for the sweep ------------------------------------------------------
Bnd == {0, 1, 9, 10, 13, 32, 45, 47, 48, 57, 58, 64, 65, 90, 91, 92, 93, 94, 96, 97, 122, 123, 127, 128, 255, 256,
        55295, 55296, 57343, 57344, 65535, 65536, 1114110, 1114111}
Ranges == {[k |-> "range", lo |-> x, hi |-> y] : x \in {0, 45, 65, 91, 97, 128, 55295, 65535}, y \in {57, 93, 122, 127, 255, 57344, 65536, 1114111}}
Singles == {[k |-> "str", s |-> <<c>>] : c \in {0, 10, 32, 34, 39, 45, 46, 91, 92, 93, 94, 36, 40, 41, 42, 43, 63, 123, 124, 125, 65, 97, 127, 128, 233, 55296, 65535, 65536, 1114111}}
Insens == {[k |-> "istr", s |-> <<c>>] : c \in {65, 90, 97, 122, 64, 91, 48, 75}}
Classes == {[k |-> "cls", n |-> n] : n \in {"ASCII_DIGIT", "ASCII_NONZERO_DIGIT", "ASCII_BIN_DIGIT", "ASCII_OCT_DIGIT", "ASCII_HEX_DIGIT",
            "ASCII_ALPHA_LOWER", "ASCII_ALPHA_UPPER", "ASCII_ALPHA", "ASCII_ALPHANUMERIC", "ASCII"}}
R(x, y) == [k |-> "range", lo |-> x, hi |-> y]
S1(c) == [k |-> "str", s |-> <<c>>]
I1(c) == [k |-> "istr", s |-> <<c>>]
Alt(es) == [k |-> "alt", es |-> es]
Mixed == {Alt(<<R(97, 99), R(100, 102)>>),                       \* adjacent
          Alt(<<R(97, 102), R(99, 110)>>),                       \* overlapping
          Alt(<<R(97, 122), R(100, 101)>>),                      \* nested
          Alt(<<R(100, 101), R(97, 122), S1(109)>>),             \* single inside a range
          Alt(<<S1(97), R(98, 99)>>), Alt(<<R(98, 99), S1(100)>>), \* singles equal to range neighbours
          Alt(<<S1(93), S1(45), S1(94), S1(92)>>),               \* ] - ^ \ inside a class
          Alt(<<S1(94), S1(45), S1(93)>>), Alt(<<S1(45), R(43, 46)>>),
          Alt(<<I1(97), R(48, 57)>>), Alt(<<I1(65), I1(122), S1(95)>>),
          Alt(<<R(65, 90), I1(97)>>),
          Alt(<<[k |-> "cls", n |-> "ASCII_DIGIT"], R(97, 102), S1(95)>>),
          Alt(<<[k |-> "cls", n |-> "ASCII_HEX_DIGIT"], [k |-> "cls", n |-> "ASCII_ALPHA_UPPER"]>>),
          Alt(<<R(55295, 57344), S1(65535)>>), Alt(<<R(65535, 65536), R(1114110, 1114111), S1(0)>>),
          \* ranges that abut the surrogate block from both sides ("any scalar value"): U+D800..U+DFFF stay outside
          \* ranges that share their first code point, the longer one first / last; a class, a single and another class that overlaps it
          Alt(<<R(48, 57), R(48, 55)>>), Alt(<<R(48, 55), R(48, 57)>>), Alt(<<R(97, 122), R(97, 97), S1(65)>>),
          Alt(<<[k |-> "cls", n |-> "ASCII_ALPHA"], S1(95), [k |-> "cls", n |-> "ASCII_HEX_DIGIT"]>>),
          Alt(<<[k |-> "cls", n |-> "ASCII_HEX_DIGIT"], S1(95), [k |-> "cls", n |-> "ASCII_ALPHA"]>>),
          Alt(<<R(0, 55295), R(57344, 1114111)>>), Alt(<<R(57344, 65535), R(32, 55295)>>), Alt(<<R(256, 55295), S1(57344)>>),
          Alt(<<S1(91), S1(93), R(40, 41), S1(123), S1(125)>>),
          Alt(<<R(0, 31), R(127, 159), S1(32)>>),
          Alt(<<R(122, 97), R(100, 102)>>), Alt(<<R(122, 97), R(57, 48)>>), Alt(<<S1(120), R(122, 97)>>)}    \* reversed = empty
Probes == Ranges \cup Singles \cup Insens \cup Classes \cup Mixed \cup {[k |-> "any"]}

-----------------------------------------------------------------------------
VARIABLES x, phase
vars == <<x, phase>>

Uni == 0..U
Pairs == {<<s, e>> : s \in Uni, e \in Uni}
UpTo2(S) == {{}} \cup {{a1, a2} : a1 \in S, a2 \in S}
UpTo3(S) == {{}} \cup {{a1, a2, a3} : a1 \in S, a2 \in S, a3 \in S}
AlgCases == {[singles |-> ss, ranges |-> rs] : ss \in UpTo2(Uni), rs \in UpTo3(Pairs)}

Init == /\ phase = "new"
        /\ IF Mode = "algebra" THEN x \in AlgCases ELSE x \in Probes
Next == phase = "new" /\ phase' = "done" /\ UNCHANGED x
Spec == Init /\ [][Next]_vars

\* the merged class denotes exactly the union of its parts, no more and no fewer
MergeSound == Mode = "algebra" =>
  LET m == MergeClass(x.singles, x.ranges)
      parts == x.singles \cup UNION {r[1]..r[2] : r \in x.ranges}        \* a reversed range is the empty interval
  IN /\ ClassSet(m) = parts
     /\ Canonical(m.merged)
     /\ m.singles \cap SetOf(m.merged) = {}
\* the interval-list union used by Denote is sound on the same cases
UnionSound == Mode = "algebra" =>
  LET L == UnionL(<<>>, SortedRanges({r \in x.ranges : r[1] <= r[2]}))
  IN Canonical(L) /\ SetOf(L) = UNION {r[1]..r[2] : r \in x.ranges}
ClassRelations ==
  /\ UnionL(ClassL("ASCII_ALPHA"), ClassL("ASCII_DIGIT")) = ClassL("ASCII_ALPHANUMERIC")
  /\ UnionL(ClassL("ASCII_ALPHA_LOWER"), ClassL("ASCII_ALPHA_UPPER")) = ClassL("ASCII_ALPHA")
  /\ SetOf(ClassL("ASCII_HEX_DIGIT")) \subseteq SetOf(ClassL("ASCII_ALPHANUMERIC"))
  /\ SetOf(ClassL("ASCII_NONZERO_DIGIT")) = SetOf(ClassL("ASCII_DIGIT")) \ {48}
  /\ SetOf(ClassL("ASCII_ALPHANUMERIC")) \subseteq SetOf(ClassL("ASCII"))
  /\ \A n \in {"ASCII_BIN_DIGIT", "ASCII_OCT_DIGIT"} : SetOf(ClassL(n)) \subseteq SetOf(ClassL("ASCII_DIGIT"))
DenoteCanonical == Mode = "emit" => Canonical(Denote(x))

Emit == (Mode = "emit" /\ phase = "done") => PrintT(ToJson([term |-> x, set |-> Denote(x)]))
=============================================================================
