----------------------------- MODULE StateTrace -----------------------------
(***************************************************************************)
(* Code -> spec validation of the checkpoint discipline (C05, C09): every       *)
(* ParserState.checkpoint / ok / restore performed during real parses - by the     *)
(* interpreter's parse() methods and by generated modules alike - recorded by the     *)
(* harness AFTER the call returned with the visible state                               *)
(*      [pos, ustk (user stack, interned), rdepth (rule stack depth), adepth]            *)
(* must be a behaviour of CheckpointState's LIFO of full copies:                           *)
(*   checkpoint  pushes the logged state (and must not change it: before = after);           *)
(*   ok          needs a checkpoint, pops it, and must not change the visible state;            *)
(*   restore     needs a checkpoint, and the state after it IS the popped checkpoint;             *)
(*   end         (parse() returned or raised PestParsingError) no checkpoint is left (no leak).     *)
(* Between events the parser is free to move the position and use the stacks: only the                *)
(* documented contract of the three methods is constrained, not where operators take                    *)
(* checkpoints.  A rejected parse is reported (PrintT <<"REJECTED", line of its "new">>) and the           *)
(* validation resumes at the next "new" event.                                                             *)
(***************************************************************************)
EXTENDS Integers, Sequences, Json, TLC, IOUtils

Trace == ndJsonDeserialize(IOEnv.TRACE_FILE)

VARIABLES l, cps, cur, stuck
vars == <<l, cps, cur, stuck>>

Init == l = 1 /\ cps = <<>> /\ cur = 0 /\ stuck = FALSE

Ev == Trace[l]
After == [pos |-> Ev.pos, ustk |-> Ev.ustk, rdepth |-> Ev.rdepth, adepth |-> Ev.adepth]
Before == [pos |-> Ev.bpos, ustk |-> Ev.bustk, rdepth |-> Ev.brdepth, adepth |-> Ev.badepth]
Top_ == cps[Len(cps)]
Rest_ == SubSeq(cps, 1, Len(cps) - 1)

Ok(e) == CASE e.op = "checkpoint" -> Before = After
           [] e.op = "ok"         -> cps # <<>> /\ Before = After
           [] e.op = "restore"    -> cps # <<>> /\ After = Top_
           [] e.op = "end"        -> cps = <<>>
           [] OTHER -> FALSE

TNew  == /\ l <= Len(Trace) /\ Ev.op = "new"
         /\ (IF stuck THEN PrintT(<<"REJECTED", cur>>) ELSE TRUE)
         /\ cps' = <<>> /\ cur' = l /\ stuck' = FALSE /\ l' = l + 1
TStep == /\ l <= Len(Trace) /\ Ev.op # "new" /\ ~stuck /\ Ok(Ev)
         /\ cps' = (CASE Ev.op = "checkpoint" -> Append(cps, After) [] Ev.op \in {"ok", "restore"} -> Rest_ [] OTHER -> cps)
         /\ l' = l + 1 /\ UNCHANGED <<cur, stuck>>
TSkip == /\ l <= Len(Trace) /\ Ev.op # "new" /\ (stuck \/ ~Ok(Ev))
         /\ stuck' = TRUE /\ l' = l + 1 /\ UNCHANGED <<cps, cur>>
TLast == /\ l = Len(Trace) + 1 /\ stuck /\ PrintT(<<"REJECTED", cur>>)
         /\ stuck' = FALSE /\ l' = l + 1 /\ UNCHANGED <<cps, cur>>
Next == TNew \/ TStep \/ TSkip \/ TLast
Spec == Init /\ [][Next]_vars
Done == PrintT(<<"TRACE_RESULT", TLCGet("stats").diameter - 1, Len(Trace)>>) /\ TLCGet("stats").diameter - 1 >= Len(Trace)
=============================================================================
