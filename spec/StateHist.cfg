SPECIFICATION HSpec
CONSTANTS
  N = 5
INVARIANT Emit
CHECK_DEADLOCK FALSE
