------------------------------- MODULE Escapes -------------------------------
(***************************************************************************)
(* C12 (escapes): the code point each string / character escape of pest's      *)
(* meta-grammar denotes:                                                        *)
(*     \n \r \t \\ \" \' \0      the usual characters                            *)
(*     \xHH                       the code point 0xHH (two hex digits, any case)  *)
(*     \u{H..}                    the code point with that hex value, 2 to 6       *)
(*                                digits, any case, leading zeros allowed           *)
(* Unescape(s) decodes a whole literal body by structural recursion.               *)
(* TLC emits (escape text, code point) cases; the harness writes each into a         *)
(* string literal and into both bounds of a character range and observes what         *)
(* the loaded rule matches.                                                          *)
(***************************************************************************)
EXTENDS Integers, Sequences, FiniteSets, TLC, Json

CONSTANTS Stride   \* \u{..} values: boundaries plus every Stride-th scalar value (0 = boundaries only)

bs == 92
HexChars == (48..57) \cup (97..102) \cup (65..70)
HexVal(c) == IF c <= 57 THEN c - 48 ELSE IF c >= 97 THEN c - 87 ELSE c - 55
RECURSIVE HexNum(_)
HexNum(ds) == IF ds = <<>> THEN 0 ELSE 16 * HexNum(SubSeq(ds, 1, Len(ds) - 1)) + HexVal(ds[Len(ds)])

SimpleEsc == {<<110, 10>>, <<114, 13>>, <<116, 9>>, <<92, 92>>, <<34, 34>>, <<39, 39>>, <<48, 0>>}

\* decode the escape that starts at s[i] = "\" ; returns [cp, next]
Decode(s, i) ==
  LET c == s[i + 1]
  IN IF c = 120 THEN [cp |-> HexNum(SubSeq(s, i + 2, i + 3)), next |-> i + 4]
     ELSE IF c = 117
     THEN LET close == CHOOSE j \in (i + 3)..Len(s) : s[j] = 125 /\ \A m \in (i + 3)..(j - 1) : s[m] # 125
          IN [cp |-> HexNum(SubSeq(s, i + 3, close - 1)), next |-> close + 1]
     ELSE [cp |-> (CHOOSE p \in SimpleEsc : p[1] = c)[2], next |-> i + 2]
RECURSIVE Unescape(_, _)
Unescape(s, i) == IF i > Len(s) THEN <<>>
                  ELSE IF s[i] = bs THEN LET d == Decode(s, i) IN <<d.cp>> \o Unescape(s, d.next)
                  ELSE <<s[i]>> \o Unescape(s, i + 1)

\* digit of value v (0..15) in the given case
Digit(v, upper) == IF v < 10 THEN 48 + v ELSE IF upper THEN 55 + v ELSE 87 + v
RECURSIVE HexText(_, _, _)
HexText(v, width, upper) == IF width = 0 THEN <<>> ELSE HexText(v \div 16, width - 1, upper) \o <<Digit(v % 16, upper)>>
MinWidth(v) == IF v < 256 THEN 2 ELSE IF v < 4096 THEN 3 ELSE IF v < 65536 THEN 4 ELSE IF v < 1048576 THEN 5 ELSE 6

Scalar(v) == v >= 0 /\ v <= 1114111 /\ ~(v >= 55296 /\ v <= 57343)
Boundaries == {0, 1, 9, 10, 13, 32, 34, 39, 65, 92, 127, 128, 255, 256, 2047, 2048, 4095, 4096, 55295, 57344, 65535, 65536, 1048575, 1048576, 1114110, 1114111}
UValues == Boundaries \cup (IF Stride = 0 THEN {} ELSE {v \in {k * Stride + 7 : k \in 0..(1114111 \div Stride)} : Scalar(v)})

XCases == {[esc |-> <<bs, 120, h1, h2>>, cp |-> 16 * HexVal(h1) + HexVal(h2)] : h1 \in HexChars, h2 \in HexChars}
UCases == {[esc |-> <<bs, 117, 123>> \o HexText(v, w, up) \o <<125>>, cp |-> v] : v \in UValues, w \in 2..6, up \in BOOLEAN} 
SCases == {[esc |-> <<bs, p[1]>>, cp |-> p[2]] : p \in SimpleEsc}
Cases == SCases \cup XCases \cup {c \in UCases : Len(c.esc) - 4 >= MinWidth(c.cp)}

VARIABLES c, phase
vars == <<c, phase>>
Init == c \in Cases /\ phase = "new"
Next == phase = "new" /\ phase' = "done" /\ UNCHANGED c
Spec == Init /\ [][Next]_vars

\* the structural decoder agrees with the value each case was generated from
DecodeAgrees == Unescape(c.esc, 1) = <<c.cp>> /\ Unescape(<<97>> \o c.esc \o <<66>>, 1) = <<97, c.cp, 66>>
Emit == phase = "done" => PrintT(ToJson(c))
=============================================================================
