SPECIFICATION TSpec
POSTCONDITION TraceDone
CHECK_DEADLOCK FALSE
