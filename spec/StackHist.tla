----------------------------- MODULE StackHist -----------------------------
(***************************************************************************)
(* Spec -> code generator for C09: every history of the six Stack          *)
(* operations up to length N, with the reference (SnapStack) contents      *)
(* after every step.  One JSON line per maximal history; the harness steps  *)
(* a real pest.stack.Stack through it and compares the visible state after  *)
(* each step.  Pushed values are fresh (distinguishable).                   *)
(***************************************************************************)
EXTENDS SnapStack, TLC, Json

CONSTANTS N, MaxSnaps

VARIABLES ops, exps

hvars == <<items, snaps, ops, exps>>

HInit == SInit /\ ops = <<>> /\ exps = <<>>

Rec(name) == /\ Len(ops) < N
             /\ ops' = Append(ops, name)
             /\ exps' = Append(exps, items')

HNext == \/ (Push(Len(ops) + 1) /\ Rec("push"))
         \/ (Pop /\ Rec("pop"))
         \/ (Clear /\ Rec("clear"))
         \/ (Len(snaps) < MaxSnaps /\ Snapshot /\ Rec("snapshot"))
         \/ (Restore /\ Rec("restore"))
         \/ (DropSnapshot /\ Rec("drop_snapshot"))

HSpec == HInit /\ [][HNext]_hvars

Emit == Len(ops) = N => PrintT(ToJson([ops |-> ops, exp |-> exps]))
=============================================================================
