----------------------------- MODULE StateHist -----------------------------
(* Spec -> code generator for the ParserState part of C09 (see StackHist). *)
EXTENDS CheckpointState, TLC, Json

CONSTANTS N

VARIABLES ops, exps
hvars == <<pos, ustk, rstk, adepth, cps, ops, exps>>

HInit == CInit /\ ops = <<>> /\ exps = <<>>
Vis == [pos |-> pos', ustk |-> ustk', rstk |-> rstk', adepth |-> adepth']
Rec(name) == Len(ops) < N /\ ops' = Append(ops, name) /\ exps' = Append(exps, Vis)

HNext == \/ (Checkpoint /\ Rec("checkpoint")) \/ (Ok /\ Rec("ok")) \/ (RestoreCp /\ Rec("restore"))
         \/ (SetPos(Len(ops) + 1) /\ Rec("setpos"))
         \/ (PushU(Len(ops) + 1) /\ Rec("push")) \/ (DropU /\ Rec("drop")) \/ (ClearU /\ Rec("clear"))
         \/ (PushR(Len(ops) + 1) /\ Rec("rpush")) \/ (PopR /\ Rec("rpop"))
         \/ (AInc /\ Rec("ainc")) \/ (AZero /\ Rec("azero"))
         \/ (AEnter /\ Rec("aenter")) \/ (AExit /\ Rec("aexit"))
HSpec == HInit /\ [][HNext]_hvars
Emit == Len(ops) = N => PrintT(ToJson([ops |-> ops, exp |-> exps]))
=============================================================================
