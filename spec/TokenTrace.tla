----------------------------- MODULE TokenTrace -----------------------------
(***************************************************************************)
(* Code -> spec validation for C06: the tokens() of every Pairs object the     *)
(* real library returned (recorded by the harness: one "B" event per result,    *)
(* one event per token, one "F" event at the end) must be a behaviour of the     *)
(* TokenStream monitor.  Fully logged => linear search.                          *)
(* A stream that is rejected leaves the monitor stuck; to keep validating the     *)
(* rest of the file, a "B" event may also abandon a stuck stream (Resync), and    *)
(* every abandoned stream is reported: PrintT(<<"REJECTED", index of B>>).        *)
(***************************************************************************)
EXTENDS TokenStream, Json, TLC, IOUtils

Trace == ndJsonDeserialize(IOEnv.TRACE_FILE)

VARIABLES l, cur, stuck
tvars == <<open, last, lo, hi, live, l, cur, stuck>>

TInit == TSInit /\ l = 1 /\ cur = 0 /\ stuck = FALSE

Ev == Trace[l]
Adv == l' = l + 1

TBegin == /\ l <= Len(Trace) /\ Ev.e = "B"
          /\ (stuck \/ ~live)
          /\ IF stuck THEN PrintT(<<"REJECTED", cur>>) ELSE TRUE
          /\ live' = TRUE /\ lo' = Ev.lo /\ hi' = Ev.hi /\ last' = Ev.lo /\ open' = <<>>
          /\ Ev.lo <= Ev.hi
          /\ cur' = l /\ stuck' = FALSE /\ Adv
TStart == /\ l <= Len(Trace) /\ Ev.e = "S" /\ ~stuck /\ StartTok(Ev.r, Ev.p) /\ Adv /\ UNCHANGED <<cur, stuck>>
TEnd   == /\ l <= Len(Trace) /\ Ev.e = "E" /\ ~stuck /\ EndTok(Ev.r, Ev.p) /\ Adv /\ UNCHANGED <<cur, stuck>>
TFin   == /\ l <= Len(Trace) /\ Ev.e = "F" /\ ~stuck /\ Finish /\ Adv /\ UNCHANGED <<cur, stuck>>
\* the monitor cannot take the logged event: mark the stream as rejected and skip to the next "B"
Enabled_ == \/ (Ev.e = "S" /\ live /\ last <= Ev.p /\ Ev.p <= hi)
            \/ (Ev.e = "E" /\ live /\ open # <<>> /\ open[Len(open)] = Ev.r /\ last <= Ev.p /\ Ev.p <= hi)
            \/ (Ev.e = "F" /\ live /\ open = <<>>)
TSkip  == /\ l <= Len(Trace) /\ Ev.e # "B" /\ (stuck \/ ~Enabled_)
          /\ stuck' = TRUE /\ Adv /\ UNCHANGED <<open, last, lo, hi, live, cur>>
TLast  == /\ l = Len(Trace) + 1 /\ stuck /\ PrintT(<<"REJECTED", cur>>)
          /\ stuck' = FALSE /\ l' = l + 1 /\ UNCHANGED <<open, last, lo, hi, live, cur>>

TNext == TBegin \/ TStart \/ TEnd \/ TFin \/ TSkip \/ TLast
TSpec == TInit /\ [][TNext]_tvars

TraceDone == PrintT(<<"TRACE_RESULT", TLCGet("stats").diameter - 1, Len(Trace)>>) /\ TLCGet("stats").diameter - 1 >= Len(Trace)
=============================================================================
