----------------------------- MODULE Reentrancy -----------------------------
(***************************************************************************)
(* C15 (re-entrancy): concurrent parse() calls on shared parser objects.        *)
(*                                                                         *)
(* Each thread t runs a call that takes Steps[t] atomic steps (in the harness: line  *)
(* events of the library's code) on a PRIVATE ParserState; what the threads share is     *)
(* read-only (the expression tree, the generated module) or a write-once cache that          *)
(* every writer fills with the same value (OptimizedChoice._compiled, Expression._pure).       *)
(* A thread observes the cache at its CacheAt[t]-th step: it fills it if empty.                  *)
(*                                                                         *)
(* The scheduler runs one thread at a time and may preempt; schedules with at most P                *)
(* preemptions are enumerated.  Design property: every thread's outcome is the one it                 *)
(* computes alone (Outcome = the value it read/filled = the sequential value), whatever                 *)
(* the schedule.  The enumerated schedules (as quanta <<thread, steps>>) are replayed on                  *)
(* the real library by a deterministic line-level scheduler.                                               *)
(***************************************************************************)
EXTENDS Integers, Sequences, FiniteSets, TLC, Json

CONSTANTS Threads,     \* e.g. {1, 2}
          S1, S2, S3,  \* number of steps of the call of thread 1, 2, 3
          Stride,      \* quanta are multiples of Stride
          P            \* maximal number of preemptions

Steps == [t \in Threads |-> IF t = 1 THEN S1 ELSE IF t = 2 THEN S2 ELSE S3]

VARIABLES pc, cache, seen, running, preempts, sched, ran
vars == <<pc, cache, seen, running, preempts, sched, ran>>

CacheAt(t) == Steps[t] \div 3

Init == /\ pc = [t \in Threads |-> 0] /\ cache = "empty" /\ seen = [t \in Threads |-> "none"]
        /\ running \in Threads /\ preempts = 0 /\ sched = <<>> /\ ran = FALSE

Live(t) == pc[t] < Steps[t]

\* run thread `running` for q steps (a multiple of Stride, or to its end)
Run(q) ==
  LET t == running
      target == IF pc[t] + q >= Steps[t] THEN Steps[t] ELSE pc[t] + q
      crosses == pc[t] < CacheAt(t) /\ CacheAt(t) <= target
  IN /\ Live(t) /\ q > 0 /\ ~ran          \* one quantum per turn: a turn is not split into several quanta
     /\ (target < Steps[t] => preempts < P)  \* stopping before the end is a preemption still to be paid for
     /\ pc' = [pc EXCEPT ![t] = target]
     /\ cache' = IF crosses THEN "filled" ELSE cache
     /\ seen' = IF crosses THEN [seen EXCEPT ![t] = "value"] ELSE seen          \* every writer computes the same value
     /\ sched' = Append(sched, <<t, target - pc[t]>>)
     /\ ran' = TRUE
     /\ UNCHANGED <<running, preempts>>
Switch(u) == /\ u # running /\ Live(u) /\ ran
             /\ (Live(running) => preempts < P)
             /\ running' = u
             /\ preempts' = IF Live(running) THEN preempts + 1 ELSE preempts
             /\ ran' = FALSE
             /\ UNCHANGED <<pc, cache, seen, sched>>
Next == \/ \E k \in 1..((Steps[running] \div Stride) + 1) : Run(k * Stride)
        \/ \E u \in Threads : Switch(u)
Spec == Init /\ [][Next]_vars

AllDone == \A t \in Threads : ~Live(t)
\* design property: whatever the schedule, every thread ends with the sequential value
SameAsSequential == AllDone => \A t \in Threads : seen[t] = "value"
\* a schedule never lets two consecutive quanta belong to the same thread after normalisation (harness merges them)
Emit == AllDone => PrintT(ToJson([sched |-> sched]))
=============================================================================
