---------------------------- MODULE PestVMTrace ----------------------------
(***************************************************************************)
(* Code -> spec for the interpreter machine: parses of REAL grammars (the     *)
(* repository's suite samples, bundled grammars on corpus inputs) recorded     *)
(* from the real interpreter are validated as behaviours of PestVM.            *)
(*                                                                         *)
(* GRAMMAR_FILE : JSON object gid -> grammar (GAST exported from the Parser;   *)
(*                built-in ASCII rules and NEWLINE appear as the silent rules   *)
(*                they are, so that their inner choices checkpoint as in the   *)
(*                code)                                                        *)
(* TRACE_FILE   : NDJSON, one parse per line                                   *)
(*                [gid, rule, input, start, ok, pairs (with tags), fp,          *)
(*                 events: the checkpoint / ok / restore calls with the          *)
(*                 registers after each]                                        *)
(*                                                                         *)
(* The machine is run on the same case; the events it logs in each step are     *)
(* compared with the next recorded ones as they appear (so the log never        *)
(* grows), and at the end the tree, the furthest-failure position and the       *)
(* number of events.  Verdicts are total and name the failing clause:           *)
(* "accept", "event" (with the index), "count", "outcome", "tree", "fpos".      *)
(***************************************************************************)
EXTENDS Integers, Sequences, FiniteSets, TLC, Json, IOUtils

Grammars == JsonDeserialize(IOEnv.GRAMMAR_FILE)
Trace    == ndJsonDeserialize(IOEnv.TRACE_FILE)

VARIABLES l,      \* the parse being validated
          m,      \* the machine (PestVM)
          ei      \* recorded events consumed so far
vars == <<l, m, ei>>

Case == Trace[l]
VM == INSTANCE PestVM WITH g <- Grammars[Case.gid], inp <- Case.input, k <- Case.start, m <- m,
                           Family <- "core2", MaxLen <- 0, Starts <- "zero", Sample <- 0

Fresh(i) == VM!MInit(Trace[i].rule, Trace[i].start)

Init == l = 1 /\ ei = 0 /\ m = (IF Len(Trace) >= 1 THEN Fresh(1) ELSE <<>>)

SameEvent(a, r) == a.op = r.op /\ a.pos = r.pos /\ a.ustk = r.ustk /\ a.rdepth = r.rdepth /\ a.adepth = r.adepth

Advance(v) == /\ PrintT(<<"EV", l, v>>)
              /\ l' = l + 1 /\ ei' = 0
              /\ m' = IF l + 1 <= Len(Trace) THEN Fresh(l + 1) ELSE <<>>

RECURSIVE Retag(_)
Retag(ps) == [i \in 1..Len(ps) |-> <<ps[i][1], ps[i][2], ps[i][3], (IF ps[i][5] = "" THEN "-" ELSE ps[i][5]), Retag(ps[i][4])>>]

Next ==
  /\ l <= Len(Trace)
  /\ IF m.ctl = <<>>
     THEN \* halted: judge the outcome
          LET ok == m.ret = "ok"
          IN Advance(IF ei # Len(Case.events) THEN "count"
                     ELSE IF ok # Case.ok THEN "outcome"
                     ELSE IF ok /\ Retag(m.bufs[1]) # Case.pairs THEN "tree"
                     ELSE IF ~ok /\ m.fp # Case.fp THEN "fpos"
                     ELSE "accept")
     ELSE LET m1  == VM!Step(m)
              new == m1.tr
              n   == Len(new)
          IN IF ei + n <= Len(Case.events) /\ \A j \in 1..n : SameEvent(new[j], Case.events[ei + j])
             THEN m' = [m1 EXCEPT !.tr = <<>>] /\ ei' = ei + n /\ l' = l
             ELSE Advance("event")
Spec == Init /\ [][Next]_vars

\* acceptance is decided by the harness: exactly one EV line per recorded parse (the behaviour is a single path)
=============================================================================
