------------------------------ MODULE CalcExpr ------------------------------
(***************************************************************************)
(* C17 (calculators): every well-formed operator stream over the calculator's   *)
(* DOCUMENTED precedence table                                                    *)
(*     + -  (1, left)  <  * /  (2, left)  <  ^  (3, right)  <  unary minus (4)       *)
(*     <  factorial (5)                                                             *)
(* with the tree it denotes (OpExprDefs: the unique tree without a precedence         *)
(* inversion).  One state per stream; the harness turns operands into integers,         *)
(* variables and parenthesised sub-expressions, evaluates the DENOTED tree with the       *)
(* operator meanings of the examples and requires the three bundled calculators to         *)
(* return that value.                                                                      *)
(***************************************************************************)
EXTENDS OpExprDefs

CONSTANTS MaxToks

CalcTable == [inf |-> [add |-> [p |-> 1, right |-> FALSE], sub |-> [p |-> 1, right |-> FALSE],
                       mul |-> [p |-> 2, right |-> FALSE], div |-> [p |-> 2, right |-> FALSE],
                       pow |-> [p |-> 3, right |-> TRUE]],
              pre |-> [neg |-> 4], post |-> [fac |-> 5]]

\* streams built incrementally by the well-formedness automaton (no generate-and-filter)
RECURSIVE Ext(_, _)
Ext(n, have) == \* all well-formed-so-far continuations of length n from automaton state `have`
  IF n = 0 THEN {<<>>}
  ELSE LET nexts == IF have THEN {Tok("post", "fac")} \cup {Tok("in", o) : o \in DOMAIN CalcTable.inf}
                    ELSE {Tok("pre", "neg"), Tok("p", "x")}
       IN UNION {{<<t>> \o r : r \in Ext(n - 1, IF t.t \in {"p", "post"} THEN TRUE ELSE FALSE)} : t \in nexts}
Streams == {s \in UNION {Ext(n, FALSE) : n \in 1..MaxToks} : WFFrom(s, 1, FALSE)}

VARIABLES s, phase
vars == <<s, phase>>
Init == s \in Streams /\ phase = "new"
Next == phase = "new" /\ phase' = "done" /\ UNCHANGED s
Spec == Init /\ [][Next]_vars

Unique == Cardinality(ValidTrees(CalcTable, s)) = 1
PrattCorrect == LET r == Pratt(CalcTable, s) IN r.i = Len(s) + 1 /\ r.tree \in ValidTrees(CalcTable, s)
Emit == phase = "done" => PrintT(ToJson([toks |-> s, tree |-> Denoted(CalcTable, s)]))
=============================================================================
