----------------------------- MODULE SnapStack -----------------------------
(***************************************************************************)
(* Reference model of a snapshotting stack (property C09): the stack and   *)
(* every snapshot are stored as FULL COPIES.  This is the meaning against   *)
(* which src/pest/stack.py (delta encoded, see DeltaStack.tla) is judged.   *)
(*                                                                         *)
(*   items : the visible contents, bottom first                            *)
(*   snaps : LIFO of full copies of `items`, innermost snapshot last       *)
(*                                                                         *)
(* One action per public method of pest.stack.Stack.                        *)
(***************************************************************************)
EXTENDS Integers, Sequences

VARIABLES items, snaps

svars == <<items, snaps>>

SInit == items = <<>> /\ snaps = <<>>

Push(v)  == items' = Append(items, v) /\ UNCHANGED snaps

\* pop() on an empty stack raises IndexError by contract: not enabled here.
Pop      == items # <<>> /\ items' = SubSeq(items, 1, Len(items) - 1) /\ UNCHANGED snaps

Clear    == items' = <<>> /\ UNCHANGED snaps

Snapshot == snaps' = Append(snaps, items) /\ UNCHANGED items

\* restore without a snapshot empties the stack
Restore  == IF snaps = <<>>
            THEN items' = <<>> /\ UNCHANGED snaps
            ELSE items' = snaps[Len(snaps)] /\ snaps' = SubSeq(snaps, 1, Len(snaps) - 1)

\* dropping changes nothing visible and leaves every outer snapshot intact;
\* dropping without a snapshot is a no-op
DropSnapshot == /\ snaps' = IF snaps = <<>> THEN snaps ELSE SubSeq(snaps, 1, Len(snaps) - 1)
                /\ UNCHANGED items

Peek == items[Len(items)]
=============================================================================
