---------------------------- MODULE FamilyDefs ----------------------------
(***************************************************************************)
(* The bounded families of grammars and inputs that TLC enumerates (constant *)
(* definitions only; Families.tla evaluates the reference semantics on them,  *)
(* PestVM.tla runs the implementation-shaped machine on them).               *)
(***************************************************************************)
EXTENDS PestSem, Json, Randomization, SequencesExt

CONSTANTS
  Family,     \* which family (string)
  MaxLen,     \* inputs: all strings over the family's alphabet up to this length
  Starts,     \* "zero": start_pos = 0 only;  "all": every 0..Len(input)
  Sample      \* 0 = whole family; n > 0 = a pseudo-random subset of n grammars (TLC -seed)

a == 97   b == 98   A == 65   sp == 32   lt == 60   gt == 62   one == 49   nl == 10   c == 99

-----------------------------------------------------------------------------
\* Syntactic "must consume" (conservative): the domain of repetition bodies (WellFormed)
RECURSIVE Prog(_)
Prog(e) ==
  CASE e.k \in {"str", "istr"} -> Len(e.s) >= 1
    [] e.k \in {"range", "cls", "any"} -> TRUE
    [] e.k = "ref" -> TRUE            \* every helper rule of these families consumes
    [] e.k = "seq" -> \E i \in 1..Len(e.es) : Prog(e.es[i])
    [] e.k = "alt" -> \A i \in 1..Len(e.es) : Prog(e.es[i])
    [] e.k \in {"plus", "exact", "min", "push", "tag"} -> Prog(e.e)
    [] e.k = "minmax" -> e.m >= 1 /\ Prog(e.e)
    [] OTHER -> FALSE

Reps(S)  == LET P == {x \in S : Prog(x)}
            IN {Star(x) : x \in P} \cup {Plus(x) : x \in P} \cup {Exact(x, 2) : x \in P}
               \cup {MinR(x, 2) : x \in P} \cup {MaxR(x, 2) : x \in P} \cup {MinMax(x, 1, 2) : x \in P}
Preds(S) == {AndP(x) : x \in S} \cup {NotP(x) : x \in S}
Un(S)    == {Opt(x) : x \in S} \cup Reps(S) \cup Preds(S)
Bin(S, T) == {SeqE(<<x, y>>) : x \in S, y \in T} \cup {AltE(<<x, y>>) : x \in S, y \in T}
Tri(S)   == {SeqE(<<x, y, z>>) : x \in S, y \in S, z \in S} \cup {AltE(<<x, y, z>>) : x \in S, y \in S, z \in S}

Strings(alpha, n) == UNION {[1..m -> alpha] : m \in 0..n}

Pick(S) == IF Sample = 0 \/ Sample >= Cardinality(S) THEN S ELSE RandomSubset(Sample, S)

-----------------------------------------------------------------------------
\* ---- family "core": C03 (no trivia, no stack) ------------------------------
\*   r = { BODY }      s = m{ "a" ~ "b"? }  (m normal or silent)     t = { "a" ~ t | "b" }
\*   w = _{ s ~ "b" ~ "b" }   (a silent rule that can fail AFTER an inner rule produced a pair)
SBody == SeqE(<<Str(<<a>>), Opt(Str(<<b>>))>>)
TBody == AltE(<<SeqE(<<Str(<<a>>), Ref("t")>>), Str(<<b>>)>>)

WBody == SeqE(<<Ref("s"), Str(<<b>>), Str(<<b>>)>>)
CoreAtoms  == {Str(<<a>>), Str(<<b>>), Str(<<a, b>>), IStr(<<a>>), Rng(a, b), AnyC, Cls("ASCII_ALPHA_UPPER"),
               Soi, Eoi, Ref("s"), Ref("t"), Ref("w"), Str(<<>>)}      \* "" always matches, consuming nothing
CoreAtomsS == {Str(<<a>>), Str(<<a, b>>), AnyC, Ref("s"), Ref("w")}          \* reduced set for the third level
CoreT2(lz) == CoreAtoms \cup Un(CoreAtoms) \cup Bin(CoreAtoms, CoreAtoms)
CoreT3(lz) == Un(CoreT2(0)) \cup Bin(CoreT2(0), CoreAtomsS) \cup Bin(CoreAtomsS, CoreT2(0)) \cup Tri(CoreAtomsS)

CoreG(body, sm) == [r |-> Rule("", body), s |-> Rule(sm, SBody), t |-> Rule("", TBody), w |-> Rule("_", WBody)]
CoreAlpha == {a, b, A}

FamCore2(lz) == {CoreG(x, sm) : x \in CoreT2(0), sm \in {"", "_"}}
FamCore3(lz) == {CoreG(x, sm) : x \in CoreT3(0) \ CoreT2(0), sm \in {"", "_"}}

\* ---- family "trivia": C04 ---------------------------------------------------
\*   r = m0{ BODY }   s = m1{ "a" ~ u }   u = m2{ "a" ~ "a"? }   + WHITESPACE / COMMENT per config
WsBody  == Str(<<sp>>)
CmBody  == SeqE(<<Str(<<lt>>), Str(<<gt>>)>>)                  \* two-element body: "<" alone is unterminated
Ws2Body == SeqE(<<Str(<<sp>>), Opt(Str(<<sp>>))>>)
TriviaCfgs == {"ws", "WS", "cm", "CM", "ws+cm", "WS+cm", "ws2+CM"}    \* upper case = non-silent
TrivRules(cfg) ==
  CASE cfg = "none"   -> <<>>
    [] cfg = "ws"     -> [WHITESPACE |-> Rule("_", WsBody)]
    [] cfg = "WS"     -> [WHITESPACE |-> Rule("", WsBody)]
    [] cfg = "cm"     -> [COMMENT |-> Rule("_", CmBody)]
    [] cfg = "CM"     -> [COMMENT |-> Rule("", CmBody)]
    [] cfg = "ws+cm"  -> [WHITESPACE |-> Rule("_", WsBody), COMMENT |-> Rule("_", CmBody)]
    [] cfg = "WS+cm"  -> [WHITESPACE |-> Rule("", WsBody), COMMENT |-> Rule("_", CmBody)]
    [] cfg = "ws2+CM" -> [WHITESPACE |-> Rule("_", Ws2Body), COMMENT |-> Rule("", CmBody)]

Merge(f, h) == [x \in DOMAIN f \cup DOMAIN h |-> IF x \in DOMAIN f THEN f[x] ELSE h[x]]

TrAtoms == {Str(<<a>>), Ref("s"), AnyC}
TrT1 == TrAtoms \cup {Eoi}
TrT2(lz) == TrT1 \cup Un(TrAtoms) \cup Bin(TrT1, TrT1)
TrT3(lz) == Un(TrT2(0)) \cup Bin(TrT2(0), {Str(<<a>>), Ref("s")}) \cup Bin({Str(<<a>>), Ref("s")}, TrT2(0))
Mods == {"", "_", "@", "$", "!"}
TrG(body, m0, m1, m2, cfg) ==
  Merge([r |-> Rule(m0, body), s |-> Rule(m1, SeqE(<<Str(<<a>>), Ref("u")>>)),
         u |-> Rule(m2, SeqE(<<Str(<<a>>), Opt(Str(<<a>>))>>)),
         d |-> Rule("", SeqE(<<Ref("u"), Ref("u")>>))],      \* a hidden rule with TWO visible descendants when u is $ or !
        TrivRules(cfg))
TrAlpha == {a, sp, lt, gt}

\* every body x every trivia config, plain modifiers
FamTrivia2(lz) == {TrG(x, "", "", "", cfg) : x \in TrT2(0), cfg \in TriviaCfgs}
FamTrivia3(lz) == {TrG(x, "", "", "", cfg) : x \in TrT3(0) \ TrT2(0), cfg \in {"ws", "WS+cm", "CM"}}
\* every modifier triple x a spanning set of bodies x two trivia configs
ModBodies(lz) == {Ref("s"), SeqE(<<Str(<<a>>), Ref("s")>>), SeqE(<<Ref("s"), Str(<<a>>)>>), Star(Ref("s")), Plus(Str(<<a>>)),
              SeqE(<<Ref("s"), Eoi>>), MaxR(Ref("s"), 2), SeqE(<<Str(<<a>>), Star(Str(<<a>>))>>), AltE(<<Ref("u"), Ref("s")>>),
              SeqE(<<Ref("u"), Ref("WHITESPACE"), Ref("u")>>), SeqE(<<Ref("s"), Ref("u")>>), SeqE(<<Ref("s"), Ref("u"), Ref("s")>>),
              Star(AltE(<<Ref("s"), Ref("u")>>)), Ref("d"), SeqE(<<Ref("d"), Ref("s")>>), Star(Ref("d")), SeqE(<<Ref("u"), Ref("d"), Ref("u")>>)}
FamMods(lz) == {TrG(x, m0, m1, m2, cfg) : x \in ModBodies(0), m0 \in Mods, m1 \in Mods, m2 \in Mods, cfg \in {"WS", "ws+cm"}}

\* ---- family "stack": C05 ------------------------------------------------------
\*   r = { SETUP ~ MID ~ PROBE }   stack operations inside every backtracking context
StkOps  == {PushE(Str(<<a>>)), PushE(Rng(a, b)), PushLit(<<b>>), PeekT, PopT, DropT, PeekAllT, PopAllT,
            PeekSl(FALSE, 0, FALSE, 0), PeekSl(TRUE, 0, TRUE, 1), PeekSl(TRUE, -1, FALSE, 0)}
StkAtoms == StkOps \cup {Str(<<a>>), Str(<<b>>)}
StkSeq2(lz) == {SeqE(<<x, y>>) : x \in StkOps, y \in StkAtoms} \cup {SeqE(<<Str(<<a>>), y>>) : y \in StkOps}
StkBase(lz) == StkOps \cup StkSeq2(0)
StkCtx(x) == {x, Opt(x), AndP(x), NotP(x), AltE(<<x, Str(<<a>>)>>), AltE(<<SeqE(<<x, Str(<<b>>)>>), x>>),
              Opt(SeqE(<<x, Str(<<b>>)>>)), NotP(NotP(x)), AndP(SeqE(<<x, Str(<<b>>)>>))}
StkRep(x) == IF Prog(x) THEN {Star(x), Plus(x), MaxR(x, 2), Star(SeqE(<<x, Str(<<b>>)>>))} ELSE {}
StkMid(lz) == UNION {StkCtx(x) \cup StkRep(x) : x \in StkBase(0)}
StkSetups == {PushLit(<<a>>), SeqE(<<PushLit(<<a>>), PushE(AnyC)>>), Opt(PushE(Str(<<b>>)))}
StkProbes == {PeekAllT, SeqE(<<PopT, Opt(PopT)>>), SeqE(<<DropT, NotP(DropT)>>), Star(SeqE(<<AnyC, Opt(PeekT)>>))}
StkG(su, mid, pr) == [r |-> Rule("", SeqE(<<su, mid, pr>>))]
StkAlpha == {a, b}
FamStack(lz) == {StkG(su, mid, pr) : su \in StkSetups, mid \in StkMid(0), pr \in StkProbes}

\* "stack1": every stack terminal ALONE in every context (small: enumerated completely, printed in both styles)
Stk1Mid(lz) == UNION {StkCtx(x) \cup StkRep(x) : x \in StkOps}
\* "stacke": the same with EMPTY strings on the stack (PUSH_LITERAL(""), PUSH of an optional that matched nothing): an empty
\* entry is an entry - PEEK / POP match the empty string and succeed, PEEK_ALL runs through it, DROP removes it
StkESetups == {SeqE(<<PushLit(<<a>>), PushLit(<<>>)>>), PushE(Opt(Str(<<b>>))), SeqE(<<PushLit(<<>>), PushE(Opt(AnyC))>>)}
\* "stackdeep": two backtracking points nested - an inner construct that COMMITS stack changes inside an outer one that
\* then fails (or is a predicate), followed by a probe;  r = { SETUP ~ OUTER(x1 ~ x2 ~ INNER(x3 ~ x4)) ~ PROBE }
DeepOps == {DropT, PopT, PushLit(<<c>>), PushE(Str(<<a>>)), PeekT, PopAllT}
DeepInner(x, y, n) == CASE n = 1 -> Opt(SeqE(<<x, y>>)) [] n = 2 -> AltE(<<SeqE(<<x, y>>), Str(<<b>>)>>)
                        [] n = 3 -> AndP(SeqE(<<x, y>>)) [] n = 4 -> Star(SeqE(<<Str(<<a>>), x, y>>))
DeepOuter(body, pr, n) == CASE n = 1 -> SeqE(<<AltE(<<SeqE(<<body, Str(<<c, c>>)>>), Str(<<>>)>>), pr>>)       \* alternative fails after the commit
                            [] n = 2 -> SeqE(<<Opt(SeqE(<<body, Str(<<c, c>>)>>)), pr>>)
                            [] n = 3 -> SeqE(<<NotP(NotP(body)), pr>>)
                            [] n = 4 -> SeqE(<<AndP(body), pr>>)
DeepSetups == {SeqE(<<PushLit(<<a>>), PushLit(<<b>>)>>), SeqE(<<PushE(AnyC), PushLit(<<b>>), PushLit(<<a>>)>>)}
DeepProbes == {PeekAllT, SeqE(<<Star(SeqE(<<NotP(PeekAllT), AnyC>>)), PeekAllT>>), SeqE(<<DropT, PeekT>>)}
FamStackDeep(lz) == {[r |-> Rule("", SeqE(<<su, DeepOuter(SeqE(<<x1, x2, DeepInner(x3, x4, ni)>>), pr, no)>>))]
                   : x1 \in DeepOps, x2 \in DeepOps, x3 \in DeepOps, x4 \in DeepOps, su \in DeepSetups, pr \in DeepProbes, ni \in 1..4, no \in 1..4}

\* "stackclear": pop below the checkpoint, push, POP_ALL (the bulk clear), all under ONE checkpoint that is then abandoned
FamStackClear(lz) == {[r |-> Rule("", SeqE(<<su, DeepOuter(SeqE(<<x1, x2, PopAllT, x4>>), pr, no)>>))]
                       : x1 \in {DropT, PopT, PeekT}, x2 \in {PushLit(<<c>>), PushE(Str(<<a>>)), PushLit(<<>>)}, x4 \in {PushLit(<<c>>), Str(<<a>>), Str(<<>>)},
                         su \in DeepSetups, pr \in DeepProbes, no \in 1..4}

\* a PEEK[a..b] whose indices can fall outside the stack is outside the checked domain:
\* these families only use [..], [0..1] after a guaranteed push, [-1..] after a guaranteed push.
\* (the first setup alternatives push at least one entry; Opt(PUSH("b")) may leave it empty, so
\*  slices with explicit indices are only combined with the guaranteed setups)
RECURSIVE HasIdxSlice(_)
HasIdxSlice(e) ==
  CASE e.k = "peekslice" -> e.ha \/ e.hb
    [] e.k \in {"seq", "alt"} -> \E i \in 1..Len(e.es) : HasIdxSlice(e.es[i])
    [] e.k \in {"opt", "star", "plus", "exact", "min", "max", "minmax", "and", "not", "push", "tag"} -> HasIdxSlice(e.e)
    [] OTHER -> FALSE
FamStackWF(lz) == {g \in FamStack(0) : ~(g.r.body.es[1].k = "opt" /\ HasIdxSlice(g.r.body.es[2]))}
FamStack1(lz) == {g \in {StkG(su, mid, pr) : su \in StkSetups, mid \in Stk1Mid(0), pr \in StkProbes} : ~(g.r.body.es[1].k = "opt" /\ HasIdxSlice(g.r.body.es[2]))}
FamStackE(lz) == {g \in {StkG(su, mid, pr) : su \in StkESetups, mid \in Stk1Mid(0), pr \in StkProbes} : ~HasIdxSlice(g.r.body.es[2]) \/ g.r.body.es[1].k = "seq"}

\* ---- family "trivfx": implicit rules with effects (C01, C04, C05, C06) ------------------------------
\*   cmr    : COMMENT = _{ co ~ (!">" ~ ANY)* ~ ">" }   co = { "<" }   a silent comment whose opener is a rule: an
\*            unterminated comment fails AFTER co produced a pair
\*   wsr    : WHITESPACE = _{ v ~ ">" }   v = { " " }            the same for WHITESPACE
\*   wspush : WHITESPACE = _{ " " ~ PUSH_LITERAL("a") }          trivia that changes the stack
\*   wspushm: WHITESPACE = _{ PUSH(" ") }
\*   cmpop  : COMMENT = _{ "<" ~ DROP }                          trivia that pops (fails on an empty stack)
FxRules(cfg) ==
  CASE cfg = "cmr"     -> [COMMENT |-> Rule("_", SeqE(<<Ref("co"), Star(SeqE(<<NotP(Str(<<gt>>)), AnyC>>)), Str(<<gt>>)>>)), co |-> Rule("", Str(<<lt>>))]
    [] cfg = "wsr"     -> [WHITESPACE |-> Rule("_", SeqE(<<Ref("v"), Str(<<gt>>)>>)), v |-> Rule("", Str(<<sp>>))]
    \* the same with a compound-atomic opener: its pair IS visible when the trivia matches, and must not be when it fails
    [] cfg = "cmrc"    -> [COMMENT |-> Rule("_", SeqE(<<Ref("co"), Star(SeqE(<<NotP(Str(<<gt>>)), AnyC>>)), Str(<<gt>>)>>)), co |-> Rule("$", Str(<<lt>>))]
    [] cfg = "wsrc"    -> [WHITESPACE |-> Rule("_", SeqE(<<Ref("v"), Str(<<gt>>)>>)), v |-> Rule("!", Str(<<sp>>))]
    \* WHITESPACE that reaches a non-atomic rule: implicit trivia runs INSIDE the implicit rule (nested parse_trivia)
    [] cfg = "wsna"    -> [WHITESPACE |-> Rule("_", AltE(<<Str(<<sp>>), SeqE(<<Ref("dn"), Str(<<gt>>)>>)>>)), dn |-> Rule("!", SeqE(<<Str(<<lt>>), Str(<<lt>>)>>))]
    \* a negative predicate that can fail inside the implicit rule ("<" not followed by "<"): its failure is suppressed like any other
    [] cfg = "cmnot"   -> [COMMENT |-> Rule("_", SeqE(<<Str(<<lt>>), NotP(Str(<<lt>>))>>))]
    [] cfg = "wspush"  -> [WHITESPACE |-> Rule("_", SeqE(<<Str(<<sp>>), PushLit(<<a>>)>>))]
    [] cfg = "wspushm" -> [WHITESPACE |-> Rule("_", PushE(Str(<<sp>>)))]
    \* trivia that pushes and can still fail: the attempt is abandoned, its push must be undone
    [] cfg = "cmpushf" -> [WHITESPACE |-> Rule("_", Str(<<sp>>)), COMMENT |-> Rule("_", SeqE(<<PushE(Str(<<lt>>)), Str(<<gt>>)>>))]
    [] cfg = "wspushf" -> [WHITESPACE |-> Rule("_", SeqE(<<PushE(Str(<<sp>>)), Opt(Str(<<lt>>)), NotP(Str(<<gt>>))>>))]
    \* trivia that READS the stack: whether it matches at an offset changes when the stack does, without the offset moving
    [] cfg = "cmpeek"  -> [COMMENT |-> Rule("_", SeqE(<<PeekT, Str(<<gt>>)>>))]
    [] cfg = "cmpop"   -> [WHITESPACE |-> Rule("_", Str(<<sp>>)), COMMENT |-> Rule("_", SeqE(<<Str(<<lt>>), DropT>>))]
FxG(body, cfg) == Merge([r |-> Rule("", body), s |-> Rule("", SeqE(<<Str(<<a>>), Ref("u")>>)),
                         u |-> Rule("", SeqE(<<Str(<<a>>), Opt(Str(<<a>>))>>))], FxRules(cfg))
FxProbes == {SeqE(<<PeekAllT, Eoi>>), SeqE(<<DropT, DropT>>), PopT, SeqE(<<DropT, Eoi>>), NotP(DropT), SeqE(<<PeekT, PeekT>>)}
FxStackBodies(lz) == {SeqE(<<x, pr>>) : x \in TrT2(0), pr \in FxProbes}
                     \cup {SeqE(<<PushLit(<<a>>), x, pr>>) : x \in TrT1 \cup Un(TrAtoms), pr \in FxProbes}
FxPeekBodies == {SeqE(<<Str(<<a>>), PushLit(<<lt>>), Str(<<a>>), DropT>>), SeqE(<<Str(<<a>>), PushLit(<<lt>>), Ref("s")>>), SeqE(<<PushLit(<<lt>>), Str(<<a>>), Str(<<a>>), PopT>>),
                 SeqE(<<Str(<<a>>), PushLit(<<lt>>), Str(<<a>>), DropT, Str(<<a>>)>>), SeqE(<<Star(SeqE(<<Str(<<a>>), PushLit(<<lt>>)>>)), Eoi>>), SeqE(<<Str(<<a>>), Opt(PushLit(<<lt>>)), Str(<<a>>)>>)}
FamTrivFx(lz) == {FxG(x, cfg) : x \in TrT2(0), cfg \in {"cmr", "wsr", "cmrc", "wsrc", "wsna", "cmnot"}} \cup {FxG(x, "cmpeek") : x \in FxPeekBodies}
                 \cup {FxG(x, cfg) : x \in FxStackBodies(0), cfg \in {"wspush", "wspushm", "cmpop", "cmpushf", "wspushf"}}

\* ---- family "ci": case-insensitive literals fold ASCII letters only (C03, C12, C02) -----------------
\*   inputs over { k, K, KELVIN SIGN, s, LONG S, x }: ^"k" matches k and K and nothing else
kk == 107   KK == 75   kelvin == 8490   ss == 115   SS == 83   longs == 383   xx == 120   eszett == 223   Eszett == 7838
CiAtoms == {IStr(<<kk>>), IStr(<<KK>>), IStr(<<ss>>), IStr(<<kk, ss>>), IStr(<<ss, kk>>), IStr(<<eszett>>), IStr(<<kelvin>>), IStr(<<longs>>),
            Str(<<kk>>), Str(<<ss>>), Str(<<xx>>), IStr(<<ss, ss>>), Rng(kk, ss)}
CiBodies(lz) == CiAtoms \cup {AltE(<<x, y>>) : x \in CiAtoms, y \in CiAtoms} \cup {Plus(AltE(<<x, y>>)) : x \in CiAtoms, y \in CiAtoms}
                \cup {SeqE(<<x, y, Eoi>>) : x \in CiAtoms, y \in CiAtoms} \cup {AltE(<<x, y, z>>) : x \in {IStr(<<kk, ss>>), IStr(<<ss>>), Str(<<kk>>)}, y \in CiAtoms, z \in {IStr(<<kk>>), Str(<<ss, ss>>), IStr(<<eszett>>)}}
CiPush == {PushE(IStr(<<kk>>)), PushE(IStr(<<kk, ss>>)), PushE(AltE(<<IStr(<<ss>>), Str(<<xx>>)>>)), PushE(Opt(IStr(<<KK>>)))}
CiStackBodies(lz) == {SeqE(<<p, q>>) : p \in CiPush, q \in {PopT, PeekT, SeqE(<<PeekT, PopT, Eoi>>), PeekAllT, SeqE(<<PopAllT, Eoi>>), PeekSl(FALSE, 0, FALSE, 0), SeqE(<<PeekT, PeekT>>)}}      \* no PEEK*: an entry can be empty, and a repetition over it would not end
                     \cup {SeqE(<<p, p2, q>>) : p \in CiPush, p2 \in CiPush, q \in {PeekAllT, SeqE(<<PopT, PopT>>)}}
FamCi(lz) == {[r |-> Rule("", x)] : x \in CiBodies(0) \cup CiStackBodies(0)}
CiAlpha == {kk, KK, kelvin, ss, SS, longs, eszett, Eszett}

\* ---- family "bounds": every bounded repetition with small bounds, degenerate ones included (C03, C04, C07) ----
\*   e{0}, e{,0}, e{0,0} match the empty string; e{0,n} = e{,n}; e{n,n} = e{n}; each behaves as its unrolled sequence,
\*   also where trivia sits at the edge of the repetition
BdOperands == {Str(<<a>>), Ref("s"), SeqE(<<Str(<<a>>), Opt(Str(<<a>>))>>)}
BdReps(x) == {Exact(x, n) : n \in 0..2} \cup {MinR(x, n) : n \in 0..2} \cup {MaxR(x, n) : n \in 0..2}
             \cup {MinMax(x, lo, hi) : lo \in 0..2, hi \in 0..3} \cup {MinMax(x, 0, 5), MinMax(x, 1, 6), MaxR(x, 5)}    \* and a long optional tail
BdWF(e) == e.k # "minmax" \/ (e.m <= e.n /\ (e.n - e.m <= 2 \/ e.n >= 5))
BdBodies(lz) == UNION {{rp, SeqE(<<Str(<<a>>), rp, Str(<<a>>)>>), SeqE(<<rp, Str(<<a>>)>>), SeqE(<<Str(<<a>>), rp>>), SeqE(<<rp, Eoi>>), Opt(SeqE(<<rp, Ref("s")>>))}
                       : rp \in UNION {{y \in BdReps(x) : BdWF(y)} : x \in BdOperands}}
FamBounds(lz) == {TrG(x, m0, "", "", cfg) : x \in BdBodies(0), m0 \in {"", "@"}, cfg \in {"none", "ws", "WS", "cm"}}

\* ---- family "sqesc": literals that PRINT alike (a line feed and backslash-n both show as \n in str(expr)) in squashable
\*      choices - anything keyed by the printed form confuses them; and "sqws": the SAME choice as WHITESPACE (fused, repeated
\*      SKIP rule) and as an ordinary alternative of the body - anything keyed by the alternatives alone confuses the two
bsl == 92   tab == 9   nn == 110   tt == 116
EscAtoms == {Str(<<nl>>), Str(<<bsl, nn>>), Str(<<tab>>), Str(<<bsl, tt>>), Str(<<a>>), IStr(<<bsl, nn>>), Str(<<bsl>>)}
EscChoices(lz) == {AltE(<<x, y>>) : x \in EscAtoms, y \in EscAtoms} \cup {AltE(<<x, y, z>>) : x \in {Str(<<nl>>), Str(<<bsl, nn>>), Str(<<tab>>)}, y \in EscAtoms, z \in {Str(<<bsl, tt>>), Str(<<a>>), Str(<<nl>>)}}
FamSqEsc(lz) == {[r |-> Rule("", bd), e |-> Rule("", ch2)] : bd \in UNION {{ch, SeqE(<<ch, Eoi>>), SeqE(<<Plus(ch), Ref("e")>>)} : ch \in EscChoices(0)},
                                                            ch2 \in {AltE(<<Str(<<nl>>), Str(<<tab>>)>>), AltE(<<Str(<<bsl, nn>>), Str(<<bsl, tt>>)>>)}}
WsPairs == {<<Str(<<sp>>), Str(<<tab>>)>>, <<Str(<<tab>>), Str(<<sp>>)>>, <<Str(<<sp>>), Str(<<nl>>)>>, <<Str(<<sp, sp>>), Str(<<tab>>)>>}
SqWsBodies(x, y) == UNION {{SeqE(<<Str(<<a>>), ch, Str(<<a>>)>>), SeqE(<<Plus(Str(<<a>>)), ch, Eoi>>), SeqE(<<Str(<<a>>), Star(ch), Str(<<a>>)>>), SeqE(<<ch, ch>>), SeqE(<<Str(<<a>>), Str(<<a>>)>>)}
                            : ch \in {AltE(<<x, y>>), AltE(<<y, x>>), AltE(<<x, y, Str(<<a>>)>>)}}
FamSqWs(lz) == UNION {{[r |-> Rule(m, bd), WHITESPACE |-> Rule("_", AltE(<<wp[1], wp[2]>>))] : m \in {"", "@", "$"}, bd \in SqWsBodies(wp[1], wp[2])} : wp \in WsPairs}

\* ---- family "sqcls": a choice whose FIRST alternative is already a fused choice when the choice around it is squashed (a built-in
\*      that is a choice of ranges, or a parenthesised choice), followed by literals inside and outside its range
ClsFirst == {Cls("ASCII_ALPHA"), Cls("ASCII_HEX_DIGIT"), Cls("ASCII_ALPHANUMERIC"), AltE(<<Str(<<a>>), Rng(one, one)>>)}
ClsRest == {Str(<<sp>>), Str(<<a>>), Str(<<A, a>>), IStr(<<a>>), Rng(sp, one), Str(<<one>>)}
ClsChoices(lz) == {AltE(<<x, y>>) : x \in ClsFirst, y \in ClsRest} \cup {AltE(<<x, y, z>>) : x \in ClsFirst, y \in ClsRest, z \in ClsRest}
                  \cup {AltE(<<y, x, z>>) : x \in ClsFirst, y \in {Str(<<sp>>), Str(<<A, a>>)}, z \in ClsRest}
FamSqCls(lz) == {[r |-> Rule(m, bd)] : m \in {"", "@"}, bd \in UNION {{ch, Plus(ch), SeqE(<<ch, Eoi>>)} : ch \in ClsChoices(0)}}

\* ---- family "pushalt": PUSH( sequence that produces pairs and can still fail ) as an alternative that is abandoned ------------
PaX == {Str(<<b>>), Ref("s"), SeqE(<<Str(<<b>>), Ref("s")>>)}
PaY == {Ref("s"), SeqE(<<Ref("s"), Ref("s")>>), Str(<<a>>), SeqE(<<Ref("s"), PopT>>)}
PaAlts(lz) == {AltE(<<PushE(SeqE(<<Ref("s"), x>>)), y>>) : x \in PaX, y \in PaY} \cup {AltE(<<SeqE(<<PushE(SeqE(<<Ref("s"), x>>)), Str(<<A>>)>>), y>>) : x \in PaX, y \in PaY}
FamPushAlt(lz) == {[r |-> Rule(m, bd), s |-> Rule("", SBody)] : m \in {"", "@", "$"}, bd \in UNION {{ch, SeqE(<<ch, Opt(PeekT)>>), Star(ch), Opt(ch)} : ch \in PaAlts(0)}}

\* ---- family "tags": C01 (tags are compared between interpreter and generated code) ----
\*   r = { BODY }   s = { "a" ~ "b"? }   v = _{ #t3 = s }     + silent WHITESPACE
TagAtoms == {Tag("t1", Ref("s")), Tag("t2", SeqE(<<Ref("s"), Str(<<b>>)>>)), Tag("t1", AltE(<<Ref("t"), Ref("s")>>)),
             Tag("t2", Ref("v")), Ref("s"), Ref("v"), Str(<<a>>)}
TagT2(lz) == TagAtoms \cup Un(TagAtoms) \cup Bin(TagAtoms, TagAtoms)
TagT3(lz) == {Tag("t4", SeqE(<<x, Ref("s")>>)) : x \in Un(TagAtoms)} \cup {Tag("t4", AltE(<<x, y>>)) : x \in TagAtoms, y \in Un(TagAtoms)}
         \cup {Opt(x) : x \in Bin(TagAtoms, TagAtoms)} \cup {Star(x) : x \in {y \in Bin(TagAtoms, TagAtoms) : Prog(y)}}
TagG(body, ws) == Merge([r |-> Rule("", body), s |-> Rule("", SBody), t |-> Rule("", TBody), v |-> Rule("_", Tag("t3", Ref("s")))],
                        IF ws THEN TrivRules("ws") ELSE <<>>)
FamTags(lz) == {TagG(x, ws) : x \in TagT2(0) \cup TagT3(0), ws \in BOOLEAN}

-----------------------------------------------------------------------------
\* ---- family "opt": C02, aimed at each optimizer pass ---------------------------------
\*   r = m{ BODY }   q = qm{ "b" | "ab" }   s = { "a" ~ "b"? }    + trivia per config
\* squash_choice: choices of literals / insensitive literals / ranges / classes, every order, shared prefixes
SqAtoms  == {Str(<<a>>), Str(<<b>>), Str(<<a, b>>), Str(<<b, a>>), IStr(<<a>>), IStr(<<a, b>>), IStr(<<a, b, a>>), Str(<<a, b, a>>), Rng(a, b),
             Cls("ASCII_ALPHA_UPPER"), Ref("q"), Str(<<>>), IStr(<<>>),
             Cls("ASCII_ALPHA"), Str(<<sp>>), Str(<<A, b, a>>)}      \* (" ": a literal outside every class) a built-in that is itself a choice of ranges: inlined and squashed BEFORE the choice around it is
SqAtomsS == {Str(<<a>>), Str(<<a, b>>), IStr(<<b>>), Rng(a, a), IStr(<<a, b, a>>), Str(<<>>)}
SqChoices(lz) == {AltE(<<x, y>>) : x \in SqAtoms, y \in SqAtoms} \cup {AltE(<<x, y, z>>) : x \in SqAtomsS, y \in SqAtomsS, z \in SqAtomsS}
             \cup {AltE(<<x, AltE(<<y, z>>)>>) : x \in SqAtomsS, y \in SqAtomsS, z \in {Str(<<b>>), Ref("q")}}
SqBodies(lz) == UNION {{ch, SeqE(<<ch, Str(<<b>>)>>), SeqE(<<ch, Eoi>>)} \cup (IF Prog(ch) THEN {Star(ch), SeqE(<<Plus(ch), Str(<<a>>)>>)} ELSE {})
                         : ch \in SqChoices(0)}
\* skip: (!(x | y) ~ ANY)* and near misses
SkTargets == {Str(<<b>>), AltE(<<Str(<<b>>), Str(<<a, b>>)>>), Ref("q"), AltE(<<Ref("q"), Str(<<sp>>)>>), AltE(<<Str(<<b>>), Rng(a, a)>>),
              Ref("k"), Ref("z"), AltE(<<Ref("k"), Str(<<A>>)>>),
              SeqE(<<Str(<<a>>), Str(<<b>>)>>), AltE(<<Str(<<b>>), AltE(<<Str(<<a, a>>), Str(<<sp>>)>>)>>),
              \* case-insensitive terminators (a pass that reads terminators back from a squashed choice must keep their case flag)
              IStr(<<a>>), AltE(<<IStr(<<a, b>>), Str(<<sp>>)>>), AltE(<<Str(<<b>>), IStr(<<a>>)>>),
              Ref("n"), AltE(<<Ref("n"), Str(<<b>>)>>)}
SkForms(x) == {Star(SeqE(<<NotP(x), AnyC>>)), Star(SeqE(<<NotP(x), AnyC, Opt(Str(<<a>>))>>)), Plus(SeqE(<<NotP(x), AnyC>>)),
               Star(SeqE(<<NotP(x), Rng(a, b)>>))}
SkBodies(lz) == UNION {{f, SeqE(<<f, Opt(Str(<<b>>))>>), SeqE(<<Str(<<a>>), f, Eoi>>), SeqE(<<f, Ref("s")>>)} : f \in UNION {SkForms(x) : x \in SkTargets}}
\* inline silent / inline built-in / unroll
InlBodies(lz) == {AltE(<<Str(<<a>>), Ref("q2")>>), AltE(<<Ref("q2"), Str(<<a, b>>)>>), Star(AltE(<<Str(<<a>>), Ref("q2")>>)), Tag("t1", Ref("q2")),
              SeqE(<<Tag("t2", Ref("q2")), Ref("q2")>>), SeqE(<<Ref("WHITESPACE"), Ref("s")>>), Plus(Ref("COMMENT")), SeqE(<<Str(<<a>>), Ref("COMMENT"), Str(<<a>>)>>),
              Ref("q"), SeqE(<<Ref("q"), Ref("q")>>), Star(Ref("q")), NotP(Ref("q")), SeqE(<<Ref("WHITESPACE"), Ref("q")>>), Plus(Ref("q")), MaxR(Ref("q"), 2),
              PushE(Ref("q")), SeqE(<<PushE(Ref("q")), PopT>>), Tag("t1", Ref("q")), AltE(<<Ref("q"), Ref("s")>>), MinR(Cls("ASCII_ALPHA_LOWER"), 2),
              SeqE(<<Cls("ASCII_HEX_DIGIT"), Cls("ASCII_ALPHANUMERIC")>>), AltE(<<Cls("ASCII_DIGIT"), Cls("ASCII_ALPHA")>>), SeqE(<<AnyC, Soi>>),
              Exact(AltE(<<Str(<<a>>), Ref("q")>>), 2), MinMax(Ref("s"), 1, 2), SeqE(<<Plus(Str(<<a>>)), Str(<<b>>)>>)}
OptTriv(cfg) ==
  CASE cfg = "none" -> <<>>
    [] cfg = "ws"   -> [WHITESPACE |-> Rule("_", Str(<<sp>>))]
    [] cfg = "ws|"  -> [WHITESPACE |-> Rule("_", AltE(<<Str(<<sp>>), Str(<<b, b>>)>>))]      \* fused into SKIP
    [] cfg = "WS|"  -> [WHITESPACE |-> Rule("", AltE(<<Str(<<sp>>), Str(<<b, b>>)>>))]
    [] cfg = "cm"   -> [COMMENT |-> Rule("_", SeqE(<<Str(<<sp>>), Opt(Str(<<sp>>))>>))]        \* fused into SKIP
    [] cfg = "ws+cm" -> [WHITESPACE |-> Rule("_", Str(<<sp>>)), COMMENT |-> Rule("_", Str(<<b, b>>))]
    \* a silent choice WHITESPACE next to a NON-silent COMMENT: nothing may be fused, comments stay trivia
    [] cfg = "ws|+CM" -> [WHITESPACE |-> Rule("_", AltE(<<Str(<<sp>>), Str(<<b, b>>)>>)), COMMENT |-> Rule("", Str(<<A>>))]
    [] cfg = "ws2"  -> [WHITESPACE |-> Rule("_", AltE(<<SeqE(<<Str(<<b>>), Str(<<b>>)>>), Str(<<sp>>)>>))]   \* atomicity of the body matters
    [] cfg = "cm2"  -> [WHITESPACE |-> Rule("_", Str(<<sp>>)), COMMENT |-> Rule("_", SeqE(<<Str(<<b>>), Str(<<b>>)>>))]
OptTrivs == {"none", "ws", "ws|", "WS|", "cm", "ws+cm", "ws2", "cm2", "ws|+CM"}
QBody == AltE(<<Str(<<b>>), Str(<<a, b>>)>>)
\* k (before r) and z (after r): rules that are themselves the skip idiom; q2: a silent choice with a rule alternative
KBody == SeqE(<<Star(SeqE(<<NotP(Str(<<b>>)), AnyC>>)), Opt(Str(<<b>>))>>)
OptG(body, m, qm, cfg) == Merge([r |-> Rule(m, body), q |-> Rule(qm, QBody), s |-> Rule("", SBody), k |-> Rule("@", KBody), z |-> Rule(qm, KBody),
                                 q2 |-> Rule("_", AltE(<<Str(<<b>>), Ref("s")>>)),
                                 n |-> Rule("!", SeqE(<<Str(<<a>>), Str(<<b>>)>>))],      \* a non-atomic terminator: trivia between its literals even inside @
                                OptTriv(cfg))
FamOptSq  == {OptG(x, m, "_", cfg) : x \in SqBodies(0), m \in {""}, cfg \in {"none", "ws"}}
FamOptSk  == {OptG(x, m, qm, cfg) : x \in SkBodies(0), m \in {"", "@", "!", "$"}, qm \in {"_", ""}, cfg \in {"none", "ws", "cm"}}
\* ---- family "nl": C13 (failures on multi-line inputs: at offset 0, at the end, on an empty line,
\*      after a trailing line break, inside predicates) ---------------------------------------------
NlAtoms == {Str(<<a>>), Str(<<nl>>), Str(<<a, nl>>), AnyC, Eoi, Ref("s"), NotP(Str(<<nl>>)), AndP(Str(<<a>>))}
NlT2(lz) == NlAtoms \cup Un(NlAtoms) \cup Bin(NlAtoms, NlAtoms)
NlT3(lz) == {SeqE(<<x, Str(<<b>>)>>) : x \in NlT2(0)} \cup {SeqE(<<Star(AltE(<<Str(<<a>>), Str(<<nl>>)>>)), x>>) : x \in NlT2(0)}
FamNl(lz) == {Merge([r |-> Rule(m, x), s |-> Rule("", SBody)], TrivRules(cfg)) : x \in NlT3(0), m \in {"", "@"}, cfg \in {"none", "ws"}}

\* ---- family "names": rule names that coincide with names the runtime or the generated module uses -------------
\*   r = { BODY }   n1 = { "a" }   n2 = { "b" ~ "a"? }   (+ silent WHITESPACE in half of them)
NamePairs == {<<"trivia", "SKIP">>, <<"x1", "X1">>, <<"state", "pairs">>, <<"Rule", "parse">>, <<"re", "inner">>, <<"matched", "rule_frame">>,
              <<"Pair", "main">>, <<"SKIP", "WS">>, <<"parse_trivia", "Parser">>, <<"children", "tag">>, <<"x1", "x_1">>,
              \* names Python or Enum reserve, alone and in pairs that differ only in case
              <<"_a_", "__a__">>, <<"true", "True">>, <<"none", "None">>, <<"mro", "MRO">>, <<"class", "Class">>, <<"name", "value">>,
              <<"_", "__">>, <<"def", "lambda">>, <<"_a_", "_A__">>, <<"self", "cls">>, <<"str", "len">>, <<"skip_trivia", "Rule">>}
NameBodies(n1, n2) == LET NA == {Ref(n1), Ref(n2), Str(<<a>>)} IN NA \cup Un(NA) \cup Bin(NA, NA) \cup {SeqE(<<x, y, z>>) : x \in NA, y \in NA, z \in NA}
NameG(body, n1, n2, ws) == Merge((n1 :> Rule("", Str(<<a>>))) @@ (n2 :> Rule("", SeqE(<<Str(<<b>>), Opt(Str(<<a>>))>>))) @@ [r |-> Rule("", body)],
                                 IF ws THEN TrivRules("ws") ELSE <<>>)
FamNames(lz) == UNION {{NameG(x, np[1], np[2], ws) : x \in NameBodies(np[1], np[2]), ws \in BOOLEAN} : np \in NamePairs}

RECURSIVE RefsOf(_)
RefsOf(e) ==
  CASE e.k = "ref" -> {e.n}
    [] e.k \in {"seq", "alt"} -> UNION {RefsOf(e.es[i]) : i \in 1..Len(e.es)}
    [] e.k \in {"opt", "star", "plus", "exact", "min", "max", "minmax", "and", "not", "push", "tag"} -> RefsOf(e.e)
    [] OTHER -> {}
RefsDefined(gr) == \A n \in DOMAIN gr : RefsOf(gr[n].body) \subseteq DOMAIN gr
FamOptInl(lz) == {x \in {OptG(x, m, qm, cfg) : x \in InlBodies(0), m \in {"", "@", "$"}, qm \in {"_", ""}, cfg \in OptTrivs} : RefsDefined(x)}
FamOptTrv(lz) == {OptG(x, "", "_", cfg) : x \in TrT2(0), cfg \in {"ws|", "WS|", "cm", "ws|+CM"}}

RECURSIVE UsesSoi(_)
UsesSoi(e) ==
  CASE e.k = "soi" -> TRUE
    [] e.k \in {"seq", "alt"} -> \E i \in 1..Len(e.es) : UsesSoi(e.es[i])
    [] e.k \in {"opt", "star", "plus", "exact", "min", "max", "minmax", "and", "not", "push", "tag"} -> UsesSoi(e.e)
    [] OTHER -> FALSE

Grammars ==
  CASE Family = "core2"   -> FamCore2(0)
    [] Family = "core3"   -> FamCore3(0)
    [] Family = "nl"      -> FamNl(0)
    [] Family = "names"   -> FamNames(0)
    [] Family = "optsq"   -> FamOptSq
    [] Family = "optsk"   -> FamOptSk
    [] Family = "optinl"  -> FamOptInl(0)
    [] Family = "opttrv"  -> FamOptTrv(0)
    [] Family = "core2nosoi" -> {x \in FamCore2(0) : ~UsesSoi(x.r.body)}
    [] Family = "core3nosoi" -> {x \in FamCore3(0) : ~UsesSoi(x.r.body)}
    [] Family = "trivia2" -> FamTrivia2(0)
    [] Family = "trivia3" -> FamTrivia3(0)
    [] Family = "mods"    -> FamMods(0)
    [] Family = "stack"   -> FamStackWF(0)
    [] Family = "stack1"  -> FamStack1(0)
    [] Family = "stacke"  -> FamStackE(0)
    [] Family = "stackdeep" -> FamStackDeep(0)
    [] Family = "stackclear" -> FamStackClear(0)
    [] Family = "tags"    -> FamTags(0)
    [] Family = "trivfx"  -> FamTrivFx(0)
    [] Family = "trivpeek" -> {FxG(x, "cmpeek") : x \in FxPeekBodies}
    [] Family = "ci"      -> FamCi(0)
    [] Family = "bounds"  -> FamBounds(0)
    [] Family = "sqesc"   -> FamSqEsc(0)
    [] Family = "sqws"    -> FamSqWs(0)
    [] Family = "sqcls"   -> FamSqCls(0)
    [] Family = "pushalt" -> FamPushAlt(0)

Alpha ==
  CASE Family \in {"core2", "core3", "core2nosoi", "core3nosoi"} -> CoreAlpha
    [] Family \in {"trivia2", "trivia3", "mods"} -> TrAlpha
    [] Family \in {"stack", "stack1", "stacke"} -> StkAlpha
    [] Family \in {"stackdeep", "stackclear"} -> {a, b, c}
    [] Family = "tags" -> {a, b, sp}
    [] Family \in {"optsq", "optsk", "optinl"} -> {a, b, sp, A}
    [] Family = "opttrv" -> {a, b, sp}
    [] Family = "nl" -> {a, b, nl, sp}
    [] Family = "names" -> {a, b, sp}
    [] Family \in {"trivfx", "trivpeek"} -> TrAlpha
    [] Family = "bounds" -> {a, sp, lt, gt}
    [] Family = "sqesc" -> {nl, tab, bsl, nn, tt, a}
    [] Family = "sqws" -> {a, sp, tab, nl}
    [] Family = "sqcls" -> {a, sp, A, one}
    [] Family = "pushalt" -> {a, b, A}
    [] Family = "ci" -> CiAlpha

Inputs == Strings(Alpha, MaxLen)
StartsOf(inp) == IF Starts = "all" THEN 0..Len(inp) ELSE {0}
=============================================================================
