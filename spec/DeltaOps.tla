------------------------------ MODULE DeltaOps ------------------------------
(***************************************************************************)
(* src/pest/stack.py, method by method, as pure functions on the record       *)
(* [items, popped, lengths] (see DeltaStack.tla for the encoding).  Shared by    *)
(* DeltaStack.tla (refinement of SnapStack) and DeltaGraph.tla (one test per       *)
(* transition of the implementation-shaped state graph).                            *)
(***************************************************************************)
EXTENDS Integers, Sequences, FiniteSets, TLC, SequencesExt

Front_(s)  == SubSeq(s, 1, Len(s) - 1)
\* Pure state transformers (records [items, popped, lengths]) so that the
\* refinement mapping can run restore() repeatedly.

St(i, p, l) == [items |-> i, popped |-> p, lengths |-> l]

\* def pop(self)
PopF(s) ==
  LET size == Len(s.items)
      v    == Last(s.items)
  IN IF s.lengths # <<>> /\ size = Last(s.lengths)[2]
     THEN St(Front_(s.items), Append(s.popped, v),
             [s.lengths EXCEPT ![Len(s.lengths)] = <<@[1], @[2] - 1>>])
     ELSE St(Front_(s.items), s.popped, s.lengths)

\* def clear(self): while self.items: self.pop()
RECURSIVE ClearF(_)
ClearF(s) == IF s.items = <<>> THEN s ELSE ClearF(PopF(s))

\* def restore(self)
RestoreF(s) ==
  IF s.lengths = <<>> THEN St(<<>>, s.popped, s.lengths)
  ELSE LET ic   == Last(s.lengths)[1]
           rc   == Last(s.lengths)[2]
           kept == IF rc < Len(s.items) THEN SubSeq(s.items, 1, rc) ELSE s.items
           rw   == ic - rc
           ns   == Len(s.popped) - rw
       IN IF ic > rc
          THEN St(kept \o Reverse(SubSeq(s.popped, ns + 1, Len(s.popped))),
                  SubSeq(s.popped, 1, ns), Front_(s.lengths))
          ELSE St(kept, s.popped, Front_(s.lengths))

\* def drop_snapshot(self)
DropF(s) ==
  IF s.lengths = <<>> THEN s
  ELSE LET ic    == Last(s.lengths)[1]
           rc    == Last(s.lengths)[2]
           rest  == Front_(s.lengths)
           start == Len(s.popped) - (ic - rc)          \* 0-based index of the inner segment
       IN IF rest # <<>> /\ rc < Last(rest)[2]
          THEN \* keep what was popped below the outer snapshot's low-water mark
               LET orc == Last(rest)[2]
                   cut == ic - orc                        \* entries above the outer mark
               IN St(s.items,
                     SubSeq(s.popped, 1, start) \o SubSeq(s.popped, start + cut + 1, Len(s.popped)),
                     [rest EXCEPT ![Len(rest)] = <<@[1], rc>>])
          ELSE St(s.items, SubSeq(s.popped, 1, start), rest)


\* def push(self, item)
PushF(s, v) == St(Append(s.items, v), s.popped, s.lengths)
\* def snapshot(self)
SnapshotF(s) == St(s.items, s.popped, Append(s.lengths, <<Len(s.items), Len(s.items)>>))
=============================================================================
