------------------------------ MODULE ApiTrace ------------------------------
(***************************************************************************)
(* Code -> spec validation at the public API: every recorded call            *)
(*    parse(rule, input, start_pos = k)  ->  tree | failure                   *)
(* of the real library (the repository's own suite, the bundled real-world     *)
(* grammars on their corpora and on mutated inputs, random deep grammars) is   *)
(* checked against the reference semantics PestSem.                            *)
(*                                                                         *)
(* GRAMMAR_FILE : JSON object  gid -> grammar (GAST, as exported from the       *)
(*                Parser the call was made on)                                  *)
(* TRACE_FILE   : NDJSON, one event per call                                    *)
(*                [gid, rule, input (code points), start, ok, pairs]            *)
(*                                                                         *)
(* Verdicts are total and name the failing clause: "accept", "outcome"          *)
(* (success/failure differs), "tree" (pairs/spans differ).                      *)
(***************************************************************************)
EXTENDS PestSem, Json, IOUtils

Grammars == JsonDeserialize(IOEnv.GRAMMAR_FILE)
Trace    == ndJsonDeserialize(IOEnv.TRACE_FILE)

VARIABLE l
Init == l = 1

Verdict(e) ==
  LET o == Outcome(Grammars[e.gid], e.rule, e.input, e.start)
  IN IF e.ok # o.ok THEN "outcome"
     ELSE IF e.ok /\ e.pairs # o.pairs THEN "tree"
     ELSE "accept"

Next == /\ l <= Len(Trace)
        /\ PrintT(<<"EV", l, Verdict(Trace[l])>>)
        /\ l' = l + 1
Spec == Init /\ [][Next]_l

AllConsumed == PrintT(<<"TRACE_RESULT", TLCGet("stats").diameter - 1, Len(Trace)>>) /\ TLCGet("stats").diameter - 1 = Len(Trace)
=============================================================================
