------------------------------ MODULE MetaTrace ------------------------------
(***************************************************************************)
(* C10 / C11: "syntactically valid pest v2 as defined by pest's own            *)
(* meta-grammar".  The meta-grammar (tests/grammars/meta.pest, committed as      *)
(* the PestAst constant spec/MetaGrammar.json, re-checked against the file on     *)
(* every run) is itself a pest grammar, and PestSem runs pest grammars: so         *)
(*     Valid(text)  ==  Outcome(Meta, "grammar_rules", text, 0).ok                  *)
(* with every whitespace / comment / atomicity subtlety decided by the same          *)
(* clauses that C03 / C04 validate.  For every text of the trace TLC prints the        *)
(* verdict and, when valid, the parse tree (from which the harness folds the            *)
(* structure the text denotes).                                                          *)
(* Event: [text |-> code points].                                                        *)
(***************************************************************************)
EXTENDS PestSem, Json, IOUtils

Meta  == JsonDeserialize(IOEnv.META_FILE)
Trace == ndJsonDeserialize(IOEnv.TRACE_FILE)

VARIABLE l
Init == l = 1
Next == /\ l <= Len(Trace)
        /\ LET o == Outcome(Meta, "grammar_rules", Trace[l].text, 0)
           IN PrintT(ToJson([l |-> l, ok |-> o.ok, pairs |-> IF o.ok THEN o.pairs ELSE <<>>]))
        /\ l' = l + 1
Spec == Init /\ [][Next]_l
=============================================================================
