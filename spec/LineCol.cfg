SPECIFICATION Spec
CONSTANTS
  MaxLen = 5
  Alphabet = {1, 2, 3}
  NL = 3
INVARIANT Bijective
INVARIANT Inverse
INVARIANT Monotone
INVARIANT LineBounds
INVARIANT Emit
CHECK_DEADLOCK FALSE
