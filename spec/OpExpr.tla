------------------------------- MODULE OpExpr -------------------------------
(***************************************************************************)
(* C18 (and the calculator half of C17): operator tables, well-formed token  *)
(* streams, the tree a stream DENOTES under a table, and the Pratt loop.     *)
(*                                                                         *)
(* Table  T : [inf : name -> [p : prec, right : BOOLEAN],                    *)
(*             pre : name -> prec,  post : name -> prec]                      *)
(*   well-formed: a precedence level is used by one fixity only.              *)
(* Token  : [t |-> "p" | "pre" | "post" | "in", n |-> operator name]          *)
(* Stream : pre.. primary post.. { infix pre.. primary post.. }  (".." = zero or more) *)
(* Tree   : <<"p", i>> (i = position of the operand in the stream)            *)
(*          <<"pre", op, x>>  <<"post", op, x>>  <<"in", op, l, r>>           *)
(*                                                                         *)
(* The denoted tree is defined DECLARATIVELY: among all trees whose yield is   *)
(* the stream, the one without a precedence inversion (Valid).  TLC checks     *)
(* on every enumerated instance that exactly one such tree exists (Unique),    *)
(* so the definition is an oracle and not an algorithm; and that the Pratt     *)
(* loop of src/pest/pratt.py (Pratt below, transcribed) builds it.            *)
(***************************************************************************)
EXTENDS Integers, Sequences, FiniteSets, TLC, Json

CONSTANTS MaxToks, MaxPrec, PostfixGuard

-----------------------------------------------------------------------------
\* all trees with yield toks[i..j]
RECURSIVE Trees(_, _, _)
Trees(toks, i, j) ==
  IF i > j THEN {}
  ELSE (IF i = j /\ toks[i].t = "p" THEN {<<"p", i>>} ELSE {})
       \cup (IF toks[i].t = "pre" THEN {<<"pre", toks[i].n, x>> : x \in Trees(toks, i + 1, j)} ELSE {})
       \cup (IF toks[j].t = "post" THEN {<<"post", toks[j].n, x>> : x \in Trees(toks, i, j - 1)} ELSE {})
       \cup UNION {IF toks[k].t = "in"
                   THEN {<<"in", toks[k].n, l, r>> : l \in Trees(toks, i, k - 1), r \in Trees(toks, k + 1, j)}
                   ELSE {} : k \in (i + 1)..(j - 1)}

Prec(T, n) == CASE n[1] = "in" -> T.inf[n[2]].p [] n[1] = "pre" -> T.pre[n[2]] [] n[1] = "post" -> T.post[n[2]]

\* n is the LEFT operand of an operator of precedence p: every operator on its right spine
\* (nodes open on the right: infix, prefix) must bind tighter; a tie is allowed only for an
\* infix node and only if tieOk (the parent is left associative)
RECURSIVE RightSpineOk(_, _, _, _)
RightSpineOk(T, n, p, tieOk) ==
  IF n[1] \notin {"in", "pre"} THEN TRUE
  ELSE LET q == Prec(T, n)
       IN /\ (q > p \/ (q = p /\ n[1] = "in" /\ tieOk))
          /\ RightSpineOk(T, IF n[1] = "in" THEN n[4] ELSE n[3], p, tieOk)
\* n is the RIGHT operand: its left spine (infix, postfix)
RECURSIVE LeftSpineOk(_, _, _, _)
LeftSpineOk(T, n, p, tieOk) ==
  IF n[1] \notin {"in", "post"} THEN TRUE
  ELSE LET q == Prec(T, n)
       IN /\ (q > p \/ (q = p /\ n[1] = "in" /\ tieOk))
          /\ LeftSpineOk(T, n[3], p, tieOk)

RECURSIVE Valid(_, _)
Valid(T, n) ==
  CASE n[1] = "p"    -> TRUE
    [] n[1] = "in"   -> LET p == Prec(T, n)  ra == T.inf[n[2]].right
                        IN /\ RightSpineOk(T, n[3], p, ~ra) /\ LeftSpineOk(T, n[4], p, ra)
                           /\ Valid(T, n[3]) /\ Valid(T, n[4])
    [] n[1] = "pre"  -> LeftSpineOk(T, n[3], Prec(T, n), FALSE) /\ Valid(T, n[3])
    [] n[1] = "post" -> RightSpineOk(T, n[3], Prec(T, n), FALSE) /\ Valid(T, n[3])

ValidTrees(T, toks) == {x \in Trees(toks, 1, Len(toks)) : Valid(T, x)}
Denoted(T, toks) == CHOOSE x \in ValidTrees(T, toks) : TRUE

-----------------------------------------------------------------------------
\* PrattParser.parse_expr transcribed (recursive descent with min_prec); returns [tree, i]
RECURSIVE PExpr(_, _, _, _), PLoop(_, _, _, _, _)
PExpr(T, toks, i, minp) ==
  LET tok == toks[i]
  IN IF tok.t = "pre"
     THEN LET r == PExpr(T, toks, i + 1, T.pre[tok.n])
          IN PLoop(T, toks, <<"pre", tok.n, r.tree>>, r.i, minp)
     ELSE PLoop(T, toks, <<"p", i>>, i + 1, minp)
PLoop(T, toks, left, i, minp) ==
  IF i > Len(toks) THEN [tree |-> left, i |-> i]
  ELSE LET tok == toks[i]
       IN IF tok.t = "post"
          THEN IF PostfixGuard /\ T.post[tok.n] < minp THEN [tree |-> left, i |-> i]
               ELSE PLoop(T, toks, <<"post", tok.n, left>>, i + 1, minp)
          ELSE IF tok.t = "in"
          THEN LET pr == T.inf[tok.n]
               IN IF pr.p < minp THEN [tree |-> left, i |-> i]
                  ELSE LET r == PExpr(T, toks, i + 1, pr.p + (IF pr.right THEN 0 ELSE 1))
                       IN PLoop(T, toks, <<"in", tok.n, left, r.tree>>, r.i, minp)
          ELSE [tree |-> left, i |-> i]
Pratt(T, toks) == PExpr(T, toks, 1, 0)

-----------------------------------------------------------------------------
\* enumeration: tables and well-formed streams
Precs == 1..MaxPrec
InfixTables == {f \in [{"i1"} -> [p : Precs, right : BOOLEAN]] : TRUE}
               \cup {f \in [{"i1", "i2"} -> [p : Precs, right : BOOLEAN]] : f["i1"].p <= f["i2"].p}
PreTables  == {<<>>} \cup [{"pr"} -> Precs]
PostTables == {<<>>} \cup [{"po"} -> Precs]
Levels(f) == {f[x] : x \in DOMAIN f}
TableWF(T) == LET I == {T.inf[x].p : x \in DOMAIN T.inf}
              IN /\ I \cap Levels(T.pre) = {} /\ I \cap Levels(T.post) = {} /\ Levels(T.pre) \cap Levels(T.post) = {}
                 \* equal-precedence infix operators share their associativity (else "group according to
                 \* their declared associativity" is not defined)
                 /\ \A x, y \in DOMAIN T.inf : T.inf[x].p = T.inf[y].p => T.inf[x].right = T.inf[y].right
Tables == {T \in [inf : InfixTables, pre : PreTables, post : PostTables] : TableWF(T)}

Tok(t, n) == [t |-> t, n |-> n]
TokSet(T) == {Tok("p", "x")} \cup {Tok("in", n) : n \in DOMAIN T.inf} \cup {Tok("pre", n) : n \in DOMAIN T.pre}
             \cup {Tok("post", n) : n \in DOMAIN T.post}
\* well-formedness as a two-state automaton: "want operand" / "have operand"
RECURSIVE WFFrom(_, _, _)
WFFrom(toks, i, have) ==
  IF i > Len(toks) THEN have
  ELSE LET k == toks[i].t
       IN IF have THEN (k = "post" /\ WFFrom(toks, i + 1, TRUE)) \/ (k = "in" /\ WFFrom(toks, i + 1, FALSE))
          ELSE (k = "pre" /\ WFFrom(toks, i + 1, FALSE)) \/ (k = "p" /\ WFFrom(toks, i + 1, TRUE))
Streams(T) == {s \in UNION {[1..n -> TokSet(T)] : n \in 1..MaxToks} : WFFrom(s, 1, FALSE)}

-----------------------------------------------------------------------------
VARIABLES T, phase, res
vars == <<T, phase, res>>
Init == T \in Tables /\ phase = "new" /\ res = <<>>
StreamSeq(tb) == LET S == Streams(tb) IN CHOOSE f \in [1..Cardinality(S) -> S] : \A i, j \in 1..Cardinality(S) : i # j => f[i] # f[j]
Run == /\ phase = "new" /\ phase' = "done"
       /\ res' = LET S == Streams(T)
                 IN {[toks |-> s, valid |-> ValidTrees(T, s), pratt |-> Pratt(T, s)] : s \in S}
       /\ UNCHANGED T
Spec == Init /\ [][Run]_vars

Done == phase = "done"
\* the declarative definition picks exactly one tree
Unique == Done => \A r \in res : Cardinality(r.valid) = 1
\* the Pratt loop consumes the whole stream and builds the denoted tree
PrattCorrect == Done => \A r \in res : r.pratt.i = Len(r.toks) + 1 /\ r.pratt.tree \in r.valid

Emit == Done => PrintT(ToJson([table |-> T, cases |-> {[toks |-> r.toks, tree |-> CHOOSE x \in r.valid : TRUE] : r \in res}]))
=============================================================================
