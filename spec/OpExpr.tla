------------------------------- MODULE OpExpr -------------------------------
(***************************************************************************)
(* C18 (and the calculator half of C17): operator tables, well-formed token  *)
(* streams, the tree a stream DENOTES under a table, and the Pratt loop.     *)
(*                                                                         *)
(* Table  T : [inf : name -> [p : prec, right : BOOLEAN],                    *)
(*             pre : name -> prec,  post : name -> prec]                      *)
(*   well-formed: a precedence level is used by one fixity only.              *)
(* Token  : [t |-> "p" | "pre" | "post" | "in", n |-> operator name]          *)
(* Stream : pre.. primary post.. { infix pre.. primary post.. }  (".." = zero or more) *)
(* Tree   : <<"p", i>> (i = position of the operand in the stream)            *)
(*          <<"pre", op, x>>  <<"post", op, x>>  <<"in", op, l, r>>           *)
(*                                                                         *)
(* The denoted tree is defined DECLARATIVELY: among all trees whose yield is   *)
(* the stream, the one without a precedence inversion (Valid).  TLC checks     *)
(* on every enumerated instance that exactly one such tree exists (Unique),    *)
(* so the definition is an oracle and not an algorithm; and that the Pratt     *)
(* loop of src/pest/pratt.py (Pratt below, transcribed) builds it.            *)
(***************************************************************************)
EXTENDS OpExprDefs

CONSTANTS MaxToks, MaxPrec

-----------------------------------------------------------------------------
\* enumeration: tables and well-formed streams
Precs == 1..MaxPrec
InfixTables == {f \in [{"i1"} -> [p : Precs, right : BOOLEAN]] : TRUE}
               \cup {f \in [{"i1", "i2"} -> [p : Precs, right : BOOLEAN]] : f["i1"].p <= f["i2"].p}
\* two prefix (postfix) operators of DIFFERENT precedence: a looser one directly outside a tighter one, followed by an
\* operator in between, is where a parser that handles a run of prefix operators at once goes wrong
PreTables  == {<<>>} \cup [{"pr"} -> Precs] \cup {f \in [{"pr", "pr2"} -> Precs] : f["pr"] < f["pr2"]}
PostTables == {<<>>} \cup [{"po"} -> Precs] \cup {f \in [{"po", "po2"} -> Precs] : f["po"] < f["po2"]}
Levels(f) == {f[x] : x \in DOMAIN f}
TableWF(T) == LET I == {T.inf[x].p : x \in DOMAIN T.inf}
              IN /\ I \cap Levels(T.pre) = {} /\ I \cap Levels(T.post) = {} /\ Levels(T.pre) \cap Levels(T.post) = {}
                 \* equal-precedence infix operators share their associativity (else "group according to
                 \* their declared associativity" is not defined)
                 /\ \A x, y \in DOMAIN T.inf : T.inf[x].p = T.inf[y].p => T.inf[x].right = T.inf[y].right
Tables == {T \in [inf : InfixTables, pre : PreTables, post : PostTables] : TableWF(T)}

Streams(T) == {s \in UNION {[1..n -> TokSet(T)] : n \in 1..MaxToks} : WFFrom(s, 1, FALSE)}

-----------------------------------------------------------------------------
VARIABLES T, phase, res
vars == <<T, phase, res>>
Init == T \in Tables /\ phase = "new" /\ res = <<>>
StreamSeq(tb) == LET S == Streams(tb) IN CHOOSE f \in [1..Cardinality(S) -> S] : \A i, j \in 1..Cardinality(S) : i # j => f[i] # f[j]
Run == /\ phase = "new" /\ phase' = "done"
       /\ res' = LET S == Streams(T)
                 IN {[toks |-> s, valid |-> ValidTrees(T, s), pratt |-> Pratt(T, s)] : s \in S}
       /\ UNCHANGED T
Spec == Init /\ [][Run]_vars

Done == phase = "done"
\* the declarative definition picks exactly one tree
Unique == Done => \A r \in res : Cardinality(r.valid) = 1
\* the Pratt loop consumes the whole stream and builds the denoted tree
PrattCorrect == Done => \A r \in res : r.pratt.i = Len(r.toks) + 1 /\ r.pratt.tree \in r.valid

Emit == Done => PrintT(ToJson([table |-> T, cases |-> {[toks |-> r.toks, tree |-> CHOOSE x \in r.valid : TRUE] : r \in res}]))
=============================================================================
