-------------------------- MODULE TokenStreamProps --------------------------
(***************************************************************************)
(* The monitor of TokenStream.tla is neither vacuous nor over-strict: for     *)
(* every small forest f over positions lo..hi (well-formed or not),             *)
(*        TokenStream accepts Tokens(f)   <=>   WF(f, lo, hi)                    *)
(* where WF is the tree invariant of C06 (PestSem!WF) and Tokens(f) is the        *)
(* stream pairs.py produces (Start, children's tokens, End).                      *)
(***************************************************************************)
EXTENDS Integers, Sequences, FiniteSets, TLC

CONSTANTS MaxPos, Rules

\* forests: a pair is <<rule, s, e, children>>; depth <= 2, at most 2 siblings per level
Leaves == {<<r, s, e, <<>>>> : r \in Rules, s \in 0..MaxPos, e \in 0..MaxPos}
Kids1  == {<<>>} \cup {<<x>> : x \in Leaves} \cup {<<x, y>> : x \in Leaves, y \in Leaves}
Pairs2 == {<<r, s, e, k>> : r \in Rules, s \in 0..MaxPos, e \in 0..MaxPos, k \in Kids1}
Forests == {<<>>} \cup {<<x>> : x \in Pairs2} \cup {<<x, y>> : x \in Leaves, y \in Pairs2}

RECURSIVE WF(_, _, _)
WF(ps, lo, hi) ==
  \A i \in 1..Len(ps) :
     /\ lo <= ps[i][2] /\ ps[i][2] <= ps[i][3] /\ ps[i][3] <= hi
     /\ (i > 1 => ps[i - 1][3] <= ps[i][2])
     /\ WF(ps[i][4], ps[i][2], ps[i][3])

RECURSIVE Tokens(_)
Tokens(ps) == IF ps = <<>> THEN <<>>
              ELSE <<<<"S", ps[1][1], ps[1][2]>>>> \o Tokens(ps[1][4]) \o <<<<"E", ps[1][1], ps[1][3]>>>> \o Tokens(Tail(ps))

\* run the monitor functionally: state [open, last]; returns accepted?
RECURSIVE RunFrom(_, _, _, _, _)
RunFrom(toks, i, open, last, hi) ==
  IF i > Len(toks) THEN open = <<>>
  ELSE LET t == toks[i]
       IN IF t[1] = "S"
          THEN last <= t[3] /\ t[3] <= hi /\ RunFrom(toks, i + 1, Append(open, t[2]), t[3], hi)
          ELSE open # <<>> /\ open[Len(open)] = t[2] /\ last <= t[3] /\ t[3] <= hi
               /\ RunFrom(toks, i + 1, SubSeq(open, 1, Len(open) - 1), t[3], hi)
Accepts(f, lo, hi) == RunFrom(Tokens(f), 1, <<>>, lo, hi)

VARIABLES f
Init == f \in Forests
Next == UNCHANGED f
Spec == Init /\ [][Next]_f

\* names are not needed for the equivalence when every End names its own Start (Tokens does);
\* a mis-named End is covered by the second invariant
Equivalent == \A lo \in 0..1 : Accepts(f, lo, MaxPos) <=> WF(f, lo, MaxPos)
MisnamedEndRejected ==
  (f # <<>> /\ Cardinality(Rules) > 1) =>
     LET toks == Tokens(f)
         n == Len(toks)
         other == CHOOSE r \in Rules : r # toks[n][2]
         bad == [toks EXCEPT ![n] = <<"E", other, toks[n][3]>>]
     IN ~RunFrom(bad, 1, <<>>, 0, MaxPos)
=============================================================================
