SPECIFICATION Spec
CONSTANTS
  MaxItems = 3
  MaxSnaps = 3
  MaxOps = 8
INVARIANT RepInv
INVARIANT AssertOK
PROPERTY Refinement
CHECK_DEADLOCK FALSE
