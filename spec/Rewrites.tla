------------------------------ MODULE Rewrites ------------------------------
(***************************************************************************)
(* C08: the six meaning-preserving grammar rewrites as functions on PestAst,   *)
(* applied at ANY site (a rule and a path of child indices into its body):        *)
(*   "grp"      e  ->  (e)                    redundant parentheses                  *)
(*   "assoc"    a ~ b ~ c -> (a ~ b) ~ c  /  a | b | c -> a | (b | c)   re-association   *)
(*   "extract"  e  ->  x      with a new silent rule  x = _{ e }                          *)
(*   "dup"      e  ->  (e | e)                                                              *)
(*   "never"    e  ->  ((e ~ NEVER) | e)                                                     *)
(*   "notnever" e  ->  ((!e ~ NEVER) | e)     NEVER: a literal that cannot occur in the input  *)
(*                                                                         *)
(* Mode "neutral": TLC checks on every grammar of a family, every site, every kind and every       *)
(* input that Outcome is unchanged (RewriteNeutral) - the relation is valid for pest's semantics,     *)
(* including inside atomic rules, predicates, PUSH and trivia rules.                                    *)
(* Mode "sites" / "apply": for the bundled real-world grammars (exported GAST, JSON) TLC enumerates          *)
(* the sites, and applies the requested (site, kind) pairs; the harness prints the rewritten grammars          *)
(* and compares them with the originals on the corpus through the real library.                                *)
(***************************************************************************)
EXTENDS PestSem, Json, IOUtils, SequencesExt

CONSTANTS Mode, Family, MaxLen, Sample

\* "never" / "notnever" / "dup" spell the replacement exactly as the statement does, fully parenthesised; the "...0" kinds are
\* the same rewrites with the minimal parentheses
Kinds == <<"grp", "assoc", "extract", "dup", "never", "notnever", "dup0", "never0", "notnever0">>
Never == Str(<<1114109>>)
NewRule == "zz_extracted"

Unary == {"opt", "star", "plus", "exact", "min", "max", "minmax", "and", "not", "push", "tag", "grp"}
Kids(e) == IF e.k \in {"seq", "alt"} THEN e.es ELSE IF e.k \in Unary THEN <<e.e>> ELSE <<>>
WithKid(e, i, x) == IF e.k \in {"seq", "alt"} THEN [e EXCEPT !.es[i] = x] ELSE [e EXCEPT !.e = x]

RECURSIVE Paths(_)
Paths(e) == {<<>>} \cup UNION {{<<i>> \o p : p \in Paths(Kids(e)[i])} : i \in 1..Len(Kids(e))}
RECURSIVE At(_, _)
At(e, p) == IF p = <<>> THEN e ELSE At(Kids(e)[p[1]], Tail(p))
RECURSIVE Put(_, _, _)
Put(e, p, x) == IF p = <<>> THEN x ELSE WithKid(e, p[1], Put(Kids(e)[p[1]], Tail(p), x))

Grp(e) == [k |-> "grp", e |-> e]
Applicable(kind, e) == kind # "assoc" \/ (e.k \in {"seq", "alt"} /\ Len(e.es) >= 3)
Local(kind, e) ==
  CASE kind = "grp"      -> Grp(e)
    [] kind = "assoc"    -> IF e.k = "seq" THEN SeqE(<<SeqE(SubSeq(e.es, 1, 2))>> \o SubSeq(e.es, 3, Len(e.es)))
                            ELSE AltE(<<e.es[1], AltE(SubSeq(e.es, 2, Len(e.es)))>>)
    [] kind = "dup0"      -> AltE(<<e, e>>)
    [] kind = "never0"    -> AltE(<<SeqE(<<e, Never>>), e>>)
    [] kind = "notnever0" -> AltE(<<SeqE(<<NotP(e), Never>>), e>>)
    [] kind = "dup"       -> Grp(AltE(<<e, e>>))
    [] kind = "never"     -> Grp(AltE(<<Grp(SeqE(<<e, Never>>)), e>>))
    [] kind = "notnever"  -> Grp(AltE(<<Grp(SeqE(<<NotP(Grp(e)), Never>>)), e>>))

Extend(f, n, v) == [x \in DOMAIN f \cup {n} |-> IF x = n THEN v ELSE f[x]]
RewriteGN(g, rule, p, kind, newname) ==
  LET e == At(g[rule].body, p)
  IN IF kind = "extract"
     THEN Extend([g EXCEPT ![rule].body = Put(g[rule].body, p, Ref(newname))], newname, Rule("_", e))
     ELSE [g EXCEPT ![rule].body = Put(g[rule].body, p, Local(kind, e))]
RewriteG(g, rule, p, kind) == RewriteGN(g, rule, p, kind, NewRule)
\* several rewrites in combination: steps = << [rule, path, kind], ... >>, applied in order (the harness only combines sites
\* none of which is a prefix of another, so that every path stays valid)
RECURSIVE RewriteAll(_, _, _)
RewriteAll(g, steps, n) == IF n > Len(steps) THEN g
                           ELSE RewriteAll(RewriteGN(g, steps[n].rule, steps[n].path, steps[n].kind, IF n = 1 THEN NewRule ELSE NewRule \o "_b"), steps, n + 1)

\* PestSem does not know "grp": strip it before evaluating (parentheses have no meaning of their own)
RECURSIVE Strip(_)
Strip(e) == IF e.k = "grp" THEN Strip(e.e)
            ELSE IF e.k \in {"seq", "alt"} THEN [e EXCEPT !.es = [i \in 1..Len(e.es) |-> Strip(e.es[i])]]
            ELSE IF e.k \in Unary THEN [e EXCEPT !.e = Strip(e.e)] ELSE e
StripG(g) == [n \in DOMAIN g |-> [g[n] EXCEPT !.body = Strip(g[n].body)]]

SitesOf(g) == UNION {{<<n, p>> : p \in Paths(g[n].body)} : n \in DOMAIN g}

-----------------------------------------------------------------------------
\* mode "neutral": families are supplied as a JSON file of grammars (emitted by Families.tla)
Given == IF Mode = "neutral" THEN JsonDeserialize(IOEnv.FAMILY_FILE) ELSE <<>>
Bundled == IF Mode # "neutral" THEN JsonDeserialize(IOEnv.GRAMMAR_FILE) ELSE <<>>
Requests == IF Mode = "apply" THEN ndJsonDeserialize(IOEnv.REQUEST_FILE) ELSE <<>>

Alphabet == IF Mode = "neutral" THEN {Given.alphabet[i] : i \in 1..Len(Given.alphabet)} ELSE {}
Inputs == UNION {[1..n -> Alphabet] : n \in 0..MaxLen}

VARIABLES i, phase
vars == <<i, phase>>
Init == phase = "new" /\ i \in (IF Mode = "neutral" THEN 1..Len(Given.grammars) ELSE IF Mode = "apply" THEN 1..Len(Requests) ELSE 1..1)
Next == phase = "new" /\ phase' = "done" /\ UNCHANGED i
Spec == Init /\ [][Next]_vars

RewriteNeutral ==
  (Mode = "neutral" /\ phase = "done") =>
     LET g == Given.grammars[i]
     IN \A site \in SitesOf(g) : \A ki \in 1..Len(Kinds) :
          Applicable(Kinds[ki], At(g[site[1]].body, site[2])) =>
             LET g2 == StripG(RewriteG(g, site[1], site[2], Kinds[ki]))
             IN \A inp \in Inputs : Outcome(g2, "r", inp, 0) = Outcome(g, "r", inp, 0)

EmitSites == (Mode = "sites" /\ phase = "done") =>
  PrintT(ToJson([sites |-> [n \in DOMAIN Bundled |->
            SetToSeq({[rule |-> s[1], path |-> s[2], assoc |-> Applicable("assoc", At(Bundled[n][s[1]].body, s[2]))] : s \in SitesOf(Bundled[n])})]]))
EmitApply == (Mode = "apply" /\ phase = "done") =>
  LET r == Requests[i]
  IN PrintT(ToJson([id |-> r.id, g |-> RewriteAll(Bundled[r.name], r.steps, 1)]))
=============================================================================
