------------------------------ MODULE SnapInt ------------------------------
(***************************************************************************)
(* Reference model of pest.checkpoint_int.SnapshottingInt (C09): a counter  *)
(* with a LIFO of saved values.  restore without a snapshot gives 0; drop   *)
(* without a snapshot is a no-op.                                          *)
(***************************************************************************)
EXTENDS Integers, Sequences

VARIABLES val, saved

ivars == <<val, saved>>

IInit == val = 0 /\ saved = <<>>

Inc      == val' = val + 1 /\ UNCHANGED saved
Dec      == val' = val - 1 /\ UNCHANGED saved
Zero     == val' = 0 /\ UNCHANGED saved
ISnapshot == saved' = Append(saved, val) /\ UNCHANGED val
IRestore == IF saved = <<>> THEN val' = 0 /\ UNCHANGED saved
            ELSE val' = saved[Len(saved)] /\ saved' = SubSeq(saved, 1, Len(saved) - 1)
IDrop    == saved' = (IF saved = <<>> THEN saved ELSE SubSeq(saved, 1, Len(saved) - 1)) /\ UNCHANGED val
=============================================================================
