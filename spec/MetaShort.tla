------------------------------ MODULE MetaShort ------------------------------
(***************************************************************************)
(* C10 / C11 on ALL short texts: TLC enumerates every string over the grammar   *)
(* alphabet up to length N and prints the recogniser's verdict (see MetaTrace).   *)
(***************************************************************************)
EXTENDS PestSem, Json, IOUtils

CONSTANTS N, Alphabet

Meta == JsonDeserialize(IOEnv.META_FILE)
Texts == UNION {[1..n -> Alphabet] : n \in 0..N}

VARIABLES t, phase
vars == <<t, phase>>
Init == t \in Texts /\ phase = "new"
Next == phase = "new" /\ phase' = "done" /\ UNCHANGED t
Spec == Init /\ [][Next]_vars
Emit == phase = "done" => PrintT(ToJson([t |-> t, ok |-> Outcome(Meta, "grammar_rules", t, 0).ok]))
=============================================================================
