"""C09 - snapshotting stack / counter / parser state behave like full-copy snapshots.

Spec level : DeltaStack (stack.py transcribed) refines SnapStack (full copies)      [TLC]
Spec->code : every history up to a bound, enumerated by TLC from the reference       [replay]
             models (StackHist / IntHist / StateHist), stepped through the real
             objects with the visible state compared after every step; long random
             histories from TLC -simulate.
Code->spec : Stack operations recorded from real parses validated by TLC against      [trace]
             SnapStack (StackTrace.tla).
"""

from __future__ import annotations

import json
import random
import sys

from . import common as C
from .common import Report, decode_printt, require_tlc_ok, run_tlc


def write_cfg(name: str, spec: str, consts: dict, invariants=(), props=(), extra: str = "") -> str:
    p = C.OUT / "cfg"
    p.mkdir(parents=True, exist_ok=True)
    f = p / f"{name}.cfg"
    lines = [f"SPECIFICATION {spec}", "CONSTANTS"]
    lines += [f"  {k} = {v}" for k, v in consts.items()]
    lines += [f"INVARIANT {i}" for i in invariants]
    lines += [f"PROPERTY {i}" for i in props]
    lines += ["CHECK_DEADLOCK FALSE", extra]
    f.write_text("\n".join(lines) + "\n")
    return str(f)


# ---- drivers for the real objects -------------------------------------------------


def drive_stack(pest, h):
    from pest.stack import Stack  # noqa: PLC0415

    s = Stack()
    for i, (op, exp) in enumerate(zip(h["ops"], h["exp"])):
        try:
            if op == "push":
                s.push(i + 1)
            else:
                getattr(s, op)()
        except Exception as e:  # noqa: BLE001
            return i, f"{op} raised {type(e).__name__}: {e}"
        got = list(s)
        if got != exp:
            return i, f"after step {i} ({op}) visible contents {got}, reference {exp}"
        # every way of reading the stack shows the same contents: slices (what PEEK[a..b] uses), indexing, iteration
        try:
            views = {"s[:]": list(s[:]), "s[0:1]+s[1:]": list(s[0:1]) + list(s[1:]), "s[-1:]": list(s[-1:]), "[s[j]]": [s[j] for j in range(len(s))], "s[:-1]": list(s[:-1])}
        except Exception as e:  # noqa: BLE001
            return i, f"after step {i} ({op}) reading the stack by slice / index raised {type(e).__name__}: {e}"
        wantv = {"s[:]": exp, "s[0:1]+s[1:]": exp, "s[-1:]": exp[-1:], "[s[j]]": exp, "s[:-1]": exp[:-1]}
        if views != wantv:
            bad = next(k for k in views if views[k] != wantv[k])
            return i, f"after step {i} ({op}) {bad} shows {views[bad]}, reference {wantv[bad]} (list(s) agrees with the reference)"
        if len(s) != len(exp) or s.empty() != (not exp):
            return i, f"after step {i} ({op}) len/empty disagree with contents"
        if exp and s.peek() != exp[-1]:
            return i, f"after step {i} ({op}) peek() {s.peek()} != {exp[-1]}"
    return None


def drive_int(pest, h):
    from pest.checkpoint_int import SnapshottingInt  # noqa: PLC0415

    v = SnapshottingInt(h["start"]) if h.get("start") else SnapshottingInt()  # the documented constructor argument; default 0
    for i, (op, exp) in enumerate(zip(h["ops"], h["exp"])):
        try:
            if op == "inc":
                v += 1
            elif op == "dec":
                v -= 1
            else:
                getattr(v, op)()
        except Exception as e:  # noqa: BLE001
            return i, f"{op} raised {type(e).__name__}: {e}"
        if int(v) != exp:
            return i, f"after step {i} ({op}) value {int(v)}, reference {exp}"
    return None


class _R:
    def __init__(self, n):
        self.name = f"r{n}"

    def __repr__(self):
        return self.name


def drive_state(pest, h):
    from pest.state import ParserState  # noqa: PLC0415

    st = ParserState("x" * 64, 0, None)
    scopes = []  # open "with state.atomic_checkpoint()" blocks
    for i, (op, exp) in enumerate(zip(h["ops"], h["exp"])):
        try:
            if op in ("checkpoint", "ok", "restore", "drop"):
                getattr(st, op)()
            elif op == "setpos":
                st.pos = i + 1
            elif op == "push":
                st.push(str(i + 1))
            elif op == "clear":
                st.user_stack.clear()
            elif op == "rpush":
                st.rule_stack.push(_R(i + 1))
            elif op == "rpop":
                st.rule_stack.pop()
            elif op == "ainc":
                st.atomic_depth += 1
            elif op == "azero":
                st.atomic_depth.zero()
            elif op == "aenter":
                cm = st.atomic_checkpoint()
                cm.__enter__()
                scopes.append(cm)
            elif op == "aexit":
                scopes.pop().__exit__(None, None, None)
            else:
                raise C.MachineryError(op)
        except C.MachineryError:
            raise
        except Exception as e:  # noqa: BLE001
            return i, f"{op} raised {type(e).__name__}: {e}"
        got = {
            "pos": st.pos,
            "ustk": [int(x) for x in st.user_stack],
            "rstk": [int(r.name[1:]) for r in st.rule_stack],
            "adepth": int(st.atomic_depth),
        }
        if got != exp:
            return i, f"after step {i} ({op}) state {got}, reference {exp}"
    return None


# ---- engine -----------------------------------------------------------------------


def replay_family(rep: Report, pest, module: str, consts: dict, driver, label: str, simulate: str | None = None) -> None:
    cfg = write_cfg(f"{module}_{label}", "HSpec", consts, invariants=["Emit"])
    count = 0
    seen_bad: set[str] = set()

    def on_line(line: str) -> None:
        nonlocal count
        h = decode_printt(line)
        count += 1
        rep.sample({"object": module, "ops": h["ops"], "expected_after_each_step": h["exp"]}, limit=9)
        bad = driver(pest, h)
        if bad is not None:
            step, msg = bad
            key = json.dumps(h["ops"][: step + 1])
            if key in seen_bad:  # the same failing prefix reached through another extension
                return
            seen_bad.add(key)
            rep.violation(
                {"object": module, "ops": h["ops"][: step + 1], "expected": h["exp"][: step + 1], "kind": "history"},
                f"{module}: {' '.join(h['ops'][: step + 1])}: {msg}",
            )

    extra = ["-simulate", simulate, "-depth", str(consts["N"] + 1), "-seed", str(C.SEED + 1)] if simulate else None
    st = run_tlc(module, cfg, on_line=on_line, extra=extra, workers=(1 if simulate else C.NCPU), tag=f"{module}_{label}")
    if simulate:
        if st.error:
            raise C.MachineryError(f"TLC simulate failed on {module}: {st.error}\n" + "\n".join(st.tail[-30:]))
    else:
        require_tlc_ok(st, module)
        rep.add_tlc(st, f"{module}[{label}] {consts}")
    if count == 0:
        raise C.MachineryError(f"{module} emitted no histories")
    rep.traces += count
    rep.evaluations += count * consts["N"]
    rep.distinct_count += count
    rep.extra.setdefault("histories", {})[f"{module}[{label}]"] = count


def graph_probes(rep: Report, pest, thorough: bool) -> None:
    """One test per transition (and per operation sequence of length D) from EVERY state of the implementation-shaped
    model's graph (spec/DeltaGraph.tla): reaches histories far longer than the exhaustive bound."""
    from pest.stack import Stack  # noqa: PLC0415

    consts = {"MaxItems": 3, "MaxSnaps": 3, "D": 3} if not thorough else {"MaxItems": 4, "MaxSnaps": 3, "D": 4}
    cfg = write_cfg("DeltaGraph", "Spec", consts, invariants=["Emit"], extra="VIEW view")
    n_states = n_probes = drift = 0
    maxpath = 0
    seen_bad: set[str] = set()

    def apply(s, op, v):
        if op == "push":
            s.push(v)
        else:
            getattr(s, op)()

    def on_line(line: str) -> None:
        nonlocal n_states, n_probes, drift, maxpath
        r = decode_printt(line)
        n_states += 1
        maxpath = max(maxpath, len(r["path"]))
        for probe in r["probes"]:
            s = Stack()
            try:
                for op, v in r["path"]:
                    apply(s, op, v)
            except Exception as e:  # noqa: BLE001
                rep.violation({"object": "DeltaGraph", "path": r["path"], "kind": "history"}, f"DeltaGraph path {r['path']} raised {type(e).__name__}: {e}")
                return
            if (list(s.items), list(s.popped), [list(x) for x in s.lengths]) != (r["state"]["items"], r["state"]["popped"], r["state"]["lengths"]):
                if list(s.items) != r["state"]["items"]:
                    key = json.dumps(r["path"])
                    if key not in seen_bad:
                        seen_bad.add(key)
                        rep.violation({"object": "DeltaGraph", "ops": r["path"], "expected": r["state"]["items"], "observed": list(s.items), "kind": "history"}, f"Stack after {[o for o, _ in r['path']]} shows {list(s.items)}, model (= full copies) {r['state']['items']}")
                    return
                drift += 1  # internal representation differs from the transcription: coverage claim weakened, not a violation
            n_probes += 1
            done = []
            for op, v, want in probe:
                done.append(op)
                try:
                    apply(s, op, v)
                except Exception as e:  # noqa: BLE001
                    got = f"raised {type(e).__name__}"
                else:
                    got = list(s)
                if got != want:
                    ops = [o for o, _ in r["path"]] + done
                    key = json.dumps(ops)
                    if key not in seen_bad:
                        seen_bad.add(key)
                        rep.violation({"object": "DeltaGraph", "ops": [list(x) for x in r["path"]] + [[o, vv] for o, vv, _ in probe[: len(done)]], "expected": want, "observed": got, "kind": "history"}, f"Stack after {' '.join(ops)} shows {got}, model (= full copies) {want}")
                    break

    st = run_tlc("DeltaGraph", cfg, on_line=on_line, workers=8, tag="DeltaGraph", timeout=3000, xmx="8g")
    require_tlc_ok(st, "DeltaGraph")
    rep.add_tlc(st, f"DeltaGraph {consts}: every state of the encoding's graph (by shape), all operation sequences of length D from each")
    rep.traces += n_probes
    rep.evaluations += n_probes * consts["D"]
    rep.distinct_count += n_probes
    rep.extra["graph_states"] = n_states
    rep.extra["graph_probe_sequences"] = n_probes
    rep.extra["graph_longest_path"] = maxpath
    rep.extra["model_drift_states"] = drift
    if drift:
        print(f"NOTE C09: the real Stack's internal fields differ from the DeltaStack transcription in {drift} probes (model drift; visible behaviour is what is judged)")


def run(tier: str) -> int:
    rep = Report("C09", tier)
    rep.distinct = None
    pest = C.import_pest()
    thorough = tier == "thorough"

    # 1. spec level: the delta encoding refines full copies
    cfg = write_cfg(
        "DeltaStack",
        "Spec",
        {"MaxItems": 3, "MaxSnaps": 3 if not thorough else 4, "MaxOps": 8 if not thorough else 10},
        invariants=["RepInv", "AssertOK"],
        props=["Refinement"],
    )
    st = run_tlc("DeltaStack", cfg, tag="DeltaStack")
    require_tlc_ok(st, "DeltaStack => SnapStack")
    rep.add_tlc(st, "DeltaStack refines SnapStack (RepInv, AssertOK, Refinement)")

    # 1b. one test per transition / short sequence from every state of the encoding's graph
    graph_probes(rep, pest, thorough)

    # 2. spec -> code: all histories to a bound
    n_stack, n_int, n_state = (7, 6, 5) if not thorough else (8, 8, 6)
    replay_family(rep, pest, "StackHist", {"N": n_stack, "MaxSnaps": n_stack}, drive_stack, "all")
    replay_family(rep, pest, "IntHist", {"N": n_int}, drive_int, "all")
    replay_family(rep, pest, "StateHist", {"N": n_state}, drive_state, "all")

    # 3. long random histories (TLC simulation of the same reference models)
    num = 300 if not thorough else 5000
    replay_family(rep, pest, "StackHist", {"N": 40, "MaxSnaps": 8}, drive_stack, "sim", simulate=f"num={num}")
    replay_family(rep, pest, "StateHist", {"N": 40}, drive_state, "sim", simulate=f"num={num}")

    # 4. code -> spec: stack operations of real parses validated by TLC
    from . import stacktrace  # noqa: PLC0415

    stacktrace.validate_parse_traces(rep, pest, thorough)

    rep.exhaustive = True
    rep.rule = (
        "TLC enumerates every operation history up to the length bound from the full-copy reference models "
        f"(Stack: 6 ops, length {n_stack}; SnapshottingInt: 6 ops, length {n_int}; ParserState: 13 ops, length {n_state}); "
        "each maximal history is one case, distinct by construction (tree of histories); plus random length-40 behaviours; "
        "plus Stack traces recorded from real parses validated by TLC"
    )
    rep.assumptions = [
        "pop()/ok()/restore() on an empty container raise by contract and are not part of a history",
        "TLC, CommunityModules Json",
    ]
    return rep.finish()


if __name__ == "__main__":
    sys.exit(run(sys.argv[1] if len(sys.argv) > 1 else "quick"))
