"""C15 - parsers are isolated, reusable and re-entrant.

Spec      : spec/Isolation.tla enumerates every history of Create(g, opt) / Generate / Parse(ok | fail) up to length N;
            spec/Reentrancy.tla models concurrent calls with private state and write-once shared caches, checks that every
            thread's outcome is its sequential one under every schedule with <= P preemptions, and enumerates those schedules.
Spec->code: each history is replayed in a pristine forked process; each schedule is replayed on the real library by a
            deterministic line-level scheduler (sys.settrace baton: exactly one thread advances between yield points).
Code->spec: every Parse performed - inside histories, in isolation (one pristine process per key), sequentially, under every
            schedule, under uncontrolled stress - is logged as (Key, digest of the full result: tree, or failure position AND
            expected / unexpected sets AND rule stack) and TLC validates that the log is functional in Key
            (spec/IsolationTrace.tla): the result depends only on grammar, optimizer setting, interpreted / generated, rule,
            input and start position.
"""

from __future__ import annotations

import hashlib
import json
import multiprocessing as mp
import os
import re
import sys
import threading

from . import common as C
from . import modes as M
from . import tracecheck
from .c09 import write_cfg

GRAMMARS = {
    "g1": 'r = { ASCII_HEX_DIGIT+ ~ ("x" | "yy" | "zz") ~ (NEWLINE | ASCII_ALPHA_UPPER)? }\nWHITESPACE = _{ " " | "\\t" }\n',
    "g2": 'r = { x ~ PUSH("b" | ASCII_DIGIT) ~ (POP ~ ASCII_HEX_DIGIT | PEEK ~ "c") ~ h* ~ EOI }\nx = @{ (!("b" | "9" | "#") ~ ANY)* }\nh = @{ ASCII_HEX_DIGIT{2} }\nCOMMENT = _{ "#" }\n',
    # sep has the same alternatives as g1's WHITESPACE (there fused into the repeated SKIP rule, here matched once); the failing
    # case records a positive and then a negative label (!" ") at one furthest position (label containers shared between failures)
    "g3": 'r = { s ~ ("," ~ sep? ~ (s | !" " ~ "-"))* ~ !ANY }\ns = ${ #t = w | (ASCII_DIGIT | "_")+ }\nw = { ASCII_ALPHA+ }\nsep = { " " | "\\t" }\n',
}
CASES = {
    "g1": {"ok": ("r", "a f 09 yy A", 0), "fail": ("r", "a f 09 yz", 0)},
    # g2: the failing text has no terminator of the skip idiom at all and is as long as the succeeding one (every call parses its
    # own temporary copy: a parser that remembers "nothing left to find" by address meets the other text at that address)
    "g2": {"ok": ("r", "xx.x.bb9#1f#2e", 0), "fail": ("r", "xyz..xyz..xyz.", 0)},
    "g3": {"ok": ("r", "..ab, 12_,\tc", 2), "fail": ("r", "ab,  12,c", 0)},
}
OPTS = {"none": "none", "default": None, "custom": ["squash_choice", "inline built-in"]}
_RE_CONFLICT = re.compile(r'<<"CONFLICT", (\d+)>>')
_pest = None


def _init():
    global _pest  # noqa: PLW0603
    C.die_with_parent()
    _pest = C.import_pest()


def digest(pest, parser, case):
    rule, text, start = case
    text = M.fresh_copy(text)  # this call's own temporary copy of the input, at the address of the previous call's if it fits
    o = M.run_parse(pest, parser, rule, text, start, keep=True, timeout=30)
    if o.get("ok") is True:
        res = {"ok": True, "pairs": o["pairs"]}
    elif o.get("ok") is False:
        st = o["_err"].state
        res = {"ok": False, "fpos": st.furthest_pos, "expected": st.furthest_expected, "unexpected": st.furthest_unexpected, "stack": [f.name for f in st.furthest_stack], "message": o["_err"].args[0] if o["_err"].args else None}
    else:
        res = {k: v for k, v in o.items() if not k.startswith("_")}
    return json.dumps(res, sort_keys=True)


_PARSED: dict = {}  # per process: grammar -> (rules, doc), for parsers built with the constructor from ONE shared rule mapping


def make(pest, g, opt, shared=False):
    optimizer = None if OPTS[opt] == "none" else M.optimizer_for(pest, OPTS[opt])
    if shared:
        from pest.grammar import parse  # noqa: PLC0415

        if g not in _PARSED:
            _PARSED[g] = parse(GRAMMARS[g], pest.Parser.BUILTIN)
        rules, doc = _PARSED[g]
        return pest.Parser(rules, doc, optimizer=optimizer)
    return pest.Parser.from_grammar(GRAMMARS[g], optimizer=optimizer)


def key_of(obj, c):
    return f"{obj['g']}|{obj['opt']}|{obj['kind']}|{c}"


def run_history_in_child(h):
    """Fork a pristine child (this worker never creates a parser itself); returns the parse events of the history."""
    r, w = os.pipe()
    pid = os.fork()
    if pid == 0:
        try:
            os.close(r)
            events = []
            live = []
            for ev in h["hist"]:
                if ev["ev"] == "create":
                    live.append(make(_pest, ev["g"], ev["opt"], shared=h.get("shared", False)))
                elif ev["ev"] == "generate":
                    live.append(M.Generated(live[ev["of"] - 1].generate()))
                else:
                    obj = h["objs"][ev["on"] - 1]
                    events.append({"key": key_of(obj, ev["case"]), "res": digest(_pest, live[ev["on"] - 1], CASES[obj["g"]][ev["case"]])})
            # the observed call: every case on every live object
            for i, obj in enumerate(h["objs"]):
                for c in ("ok", "fail"):
                    events.append({"key": key_of(obj, c), "res": digest(_pest, live[i], CASES[obj["g"]][c])})
            os.write(w, json.dumps(events).encode())
        except BaseException as e:  # noqa: BLE001
            os.write(w, json.dumps([{"key": "HARNESS", "res": f"{type(e).__name__}: {e}"}]).encode())
        finally:
            os._exit(0)
    os.close(w)
    data = b""
    while True:
        chunk = os.read(r, 1 << 16)
        if not chunk:
            break
        data += chunk
    os.close(r)
    os.waitpid(pid, 0)
    return json.loads(data.decode()) if data else [{"key": "HARNESS", "res": "child wrote nothing"}]


def run_histories(hs):
    # every history twice: parsers loaded from the text, and parsers built by the constructor from one shared rule mapping
    return [run_history_in_child(h) for h in hs] + [run_history_in_child({**h, "shared": True}) for h in hs]


# ------------------------------------------------------------------------------------ baton scheduler


class Baton:
    """Deterministic line-level scheduler: exactly one worker runs between yield points."""

    def __init__(self, n, schedule):
        self.n = n
        self.schedule = schedule  # list of (tid, steps); afterwards run to completion in thread order
        self.sems = [threading.Semaphore(0) for _ in range(n)]
        self.done = [False] * n
        self.cur = None
        self.left = 0
        self.qi = 0
        self.steps = [0] * n

    def pick(self):
        while self.qi < len(self.schedule):
            tid, k = self.schedule[self.qi]
            self.qi += 1
            if not self.done[tid] and k > 0:
                self.cur, self.left = tid, k
                return
        for tid in range(self.n):
            if not self.done[tid]:
                self.cur, self.left = tid, 10**9
                return
        self.cur = None

    def start(self):
        self.pick()
        self.sems[self.cur].release()

    def yield_point(self, tid):
        self.steps[tid] += 1
        self.left -= 1
        if self.left <= 0:
            self.pick()
            if self.cur != tid:
                self.sems[self.cur].release()
                self.sems[tid].acquire()

    def finish(self, tid):
        self.done[tid] = True
        self.pick()
        if self.cur is not None:
            self.sems[self.cur].release()


def run_scheduled(jobs, schedule, pest_dir):
    b = Baton(len(jobs), schedule)
    results = [None] * len(jobs)

    def tracer_for(tid):
        def local(frame, event, arg):  # noqa: ARG001
            if event == "line":
                b.yield_point(tid)
            return local

        def glob(frame, event, arg):  # noqa: ARG001
            fn = frame.f_code.co_filename
            return local if fn.startswith(pest_dir) or fn.startswith("verif_generated") else None

        return glob

    def worker(tid, fn):
        b.sems[tid].acquire()
        sys.settrace(tracer_for(tid))
        try:
            results[tid] = fn()
        except BaseException as e:  # noqa: BLE001
            results[tid] = f"EXC {type(e).__name__}: {e}"
        finally:
            sys.settrace(None)
            b.finish(tid)

    ts = [threading.Thread(target=worker, args=(i, f)) for i, f in enumerate(jobs)]
    for t in ts:
        t.start()
    b.start()
    for t in ts:
        t.join(timeout=60)
    if any(t.is_alive() for t in ts):
        return ["HUNG"] * len(jobs), b.steps
    return results, b.steps


def normalise(sched):
    out = []
    for t, k in sched:
        if out and out[-1][0] == t:
            out[-1][1] += k
        else:
            out.append([t, k])
    return tuple((t - 1, k) for t, k in out)


def schedules_part(rep, pest, events, thorough):
    pest_dir = os.path.dirname(pest.__file__)
    scenarios = []
    # shared interpreted optimized parser with fresh lazy caches; one call fails
    scenarios.append(("g1|default|interp", lambda: make(pest, "g1", "default"), [("g1", "ok"), ("g1", "fail")]))
    # shared generated module
    scenarios.append(("g2|none|gen", lambda: M.Generated(make(pest, "g2", "none").generate()), [("g2", "ok"), ("g2", "fail")]))
    # shared optimized interpreter whose rules hold a SkipUntil node, two different inputs
    scenarios.append(("g2|default|interp", lambda: make(pest, "g2", "default"), [("g2", "ok"), ("g2", "fail")]))
    # shared unoptimized interpreter (Identifier._pure / regex caches), same call twice
    scenarios.append(("g3|none|interp", lambda: make(pest, "g3", "none"), [("g3", "ok"), ("g3", "ok")]))
    total = 0
    for name, factory, calls in scenarios:
        g, opt, kind = name.split("|")
        obj = {"g": g, "opt": opt, "kind": kind}
        # sequential results and step counts
        p0 = factory()
        seq_jobs = [(lambda c=c, p=p0: digest(pest, p, CASES[c[0]][c[1]])) for c in calls]
        res_a, steps_a = run_scheduled([seq_jobs[0]], [], pest_dir)
        res_b, steps_b = run_scheduled([seq_jobs[1]], [], pest_dir)
        events.append({"key": key_of(obj, calls[0][1]), "res": res_a[0], "src": f"sequential {name}"})
        events.append({"key": key_of(obj, calls[1][1]), "res": res_b[0], "src": f"sequential {name}"})
        # steps on a FRESH object (lazy caches empty) bound the schedule lattice
        pf = factory()
        _, sa = run_scheduled([lambda p=pf: digest(pest, p, CASES[calls[0][0]][calls[0][1]])], [], pest_dir)
        pf = factory()
        _, sb = run_scheduled([lambda p=pf: digest(pest, p, CASES[calls[1][0]][calls[1][1]])], [], pest_dir)
        s1, s2 = sa[0], sb[0]
        stride = max(1, max(s1, s2) // (12 if not thorough else 60))
        scheds = set()
        # two preemptions on a coarse lattice, and ONE preemption at (almost) every step: a thread paused in the middle of any
        # method of a shared object while the other runs through to the end
        for pp, sd in ((2, stride), (1, 2 if not thorough else 1)):
            cfg = write_cfg(f"Reentrancy_{g}_{pp}", "Spec", {"Threads": "{1, 2}", "S1": s1, "S2": s2, "S3": 0, "Stride": sd, "P": pp}, invariants=["SameAsSequential", "Emit"])
            st = C.run_tlc("Reentrancy", cfg, on_line=lambda ln: scheds.add(normalise(C.decode_printt(ln)["sched"])), workers=4, tag=f"Reentrancy_{g}_{pp}", timeout=1800)
            C.require_tlc_ok(st, "Reentrancy")
            rep.add_tlc(st, f"Reentrancy {name}: S1={s1} S2={s2} stride={sd} P={pp}: SameAsSequential")
        for sc in sorted(scheds):
            p = factory()  # fresh object: lazy caches empty
            jobs = [(lambda c=c, p=p: digest(pest, p, CASES[c[0]][c[1]])) for c in calls]
            res, _ = run_scheduled(jobs, list(sc), pest_dir)
            total += 1
            for c, r in zip(calls, res):
                events.append({"key": key_of(obj, c[1]), "res": r if isinstance(r, str) else json.dumps(r), "src": f"schedule {name} {list(sc)}"})
        rep.sample({"schedule_scenario": name, "steps": [s1, s2], "example_schedule": sorted(scheds)[len(scheds) // 2]})
    # concurrent creation of an optimized parser while another thread parses on an unoptimized one sharing built-ins
    p_plain = make(pest, "g1", "none")
    obj = {"g": "g1", "opt": "none", "kind": "interp"}
    _, sa = run_scheduled([lambda: digest(pest, p_plain, CASES["g1"]["fail"])], [], pest_dir)
    _, sb = run_scheduled([lambda: make(pest, "g1", "default") and "created"], [], pest_dir)
    stride = max(1, max(sa[0], sb[0]) // (10 if not thorough else 40))
    for i in range(0, sa[0] + stride, stride):
        for j in range(0, sb[0] + stride, stride * 2):
            res, _ = run_scheduled([lambda: digest(pest, p_plain, CASES["g1"]["fail"]), lambda: make(pest, "g1", "default") and "created"], [(0, i), (1, j), (0, 10**9)], pest_dir)
            total += 1
            events.append({"key": key_of(obj, "fail"), "res": res[0] if isinstance(res[0], str) else json.dumps(res[0]), "src": f"parse while creating an optimized parser, quanta ({i},{j})"})
    # uncontrolled stress
    old = sys.getswitchinterval()
    sys.setswitchinterval(1e-6)
    try:
        p = make(pest, "g1", "default")
        gm = M.Generated(make(pest, "g2", "none").generate())
        p2 = make(pest, "g2", "default")
        rounds = 60 if not thorough else 600
        for _ in range(rounds):
            out = [None] * 6
            jobs = [("g1|default|interp|ok", p, CASES["g1"]["ok"]), ("g1|default|interp|fail", p, CASES["g1"]["fail"]), ("g2|none|gen|ok", gm, CASES["g2"]["ok"]), ("g2|none|gen|fail", gm, CASES["g2"]["fail"]),
                    ("g2|default|interp|ok", p2, CASES["g2"]["ok"]), ("g2|default|interp|fail", p2, CASES["g2"]["fail"])]
            ths = [threading.Thread(target=lambda i=i, j=j: out.__setitem__(i, digest(pest, j[1], j[2]))) for i, j in enumerate(jobs)]
            for t in ths:
                t.start()
            for t in ths:
                t.join()
            for j, r in zip(jobs, out):
                events.append({"key": j[0], "res": r, "src": "uncontrolled stress"})
            total += 1
    finally:
        sys.setswitchinterval(old)
    rep.extra["schedules_replayed"] = total
    return total


def run(tier: str) -> int:
    rep = C.Report("C15", tier)
    rep.distinct = None
    pest = C.import_pest()
    thorough = tier == "thorough"
    events: list[dict] = []

    # isolated results: one pristine process per key
    pool = mp.get_context("fork").Pool(14, initializer=_init)
    iso_hist = []
    for g in GRAMMARS:
        for opt in OPTS:
            iso_hist.append({"hist": [{"ev": "create", "g": g, "opt": opt}], "objs": [{"g": g, "opt": opt, "kind": "interp"}]})
            iso_hist.append({"hist": [{"ev": "create", "g": g, "opt": opt}, {"ev": "generate", "of": 1}], "objs": [{"g": g, "opt": opt, "kind": "interp"}, {"g": g, "opt": opt, "kind": "gen"}]})
    for evs in pool.map(run_histories, [[h] for h in iso_hist]):
        for e in evs[0]:
            events.append({**e, "src": "isolated (pristine process)"})
    # sanity of the cases themselves: "ok" succeeds, "fail" fails
    for e in events:
        ok = json.loads(e["res"]).get("ok") if e["res"].startswith("{") else None
        if e["key"].endswith("|ok") and ok is not True or e["key"].endswith("|fail") and ok is not False:
            raise C.MachineryError(f"C15 case is not what it should be: {e}")

    # histories
    n = 3 if not thorough else 4
    cfg = write_cfg("Isolation", "Spec", {"N": n, "Grammars": '{"g1", "g2", "g3"}', "Opts": '{"none", "default", "custom"}'}, invariants=["Emit"])
    hs = []
    st = C.run_tlc("Isolation", cfg, on_line=lambda ln: hs.append(C.decode_printt(ln)), workers=4 if not thorough else 8, tag="Isolation", timeout=1800)
    C.require_tlc_ok(st, "Isolation")
    rep.add_tlc(st, f"Isolation N={n}: all histories")
    hs.sort(key=lambda h: json.dumps(h, sort_keys=True))
    chunks = [hs[i : i + 40] for i in range(0, len(hs), 40)]
    for ch, res in zip(chunks, pool.map(run_histories, chunks)):
        if len(res) != 2 * len(ch):
            raise C.MachineryError("history replay returned an unexpected number of results")
        for j, (h, evs) in enumerate(zip(ch + ch, res)):
            how = "" if j < len(ch) else "parsers built by Parser(rules, doc, ...) from one shared rule mapping: "
            desc = how + " ; ".join(f"{e['ev']}({e.get('g', '')}{',' + e['opt'] if 'opt' in e else ''}{e.get('of', '')}{e.get('on', '')}{',' + e['case'] if 'case' in e else ''})" for e in h["hist"])
            for e in evs:
                events.append({**e, "src": f"history [{desc}]"})
    pool.close()
    pool.join()
    rep.extra["histories_replayed"] = 2 * len(hs)
    rep.sample({"history": hs[len(hs) // 2]["hist"]})

    # schedules
    nsched = schedules_part(rep, pest, events, thorough)

    harness = [e for e in events if e["key"] == "HARNESS"]
    if harness:
        raise C.MachineryError(f"history replay failed in a child: {harness[0]}")
    # hand the log to TLC: functional in Key?
    tl = [{"key": e["key"], "res": hashlib.sha1(e["res"].encode()).hexdigest()[:16] if not e["res"].startswith(("EXC", "HUNG")) else e["res"][:60]} for e in events]
    conflicts = []

    d = C.OUT / "traces"
    d.mkdir(parents=True, exist_ok=True)
    f = d / f"c15_{os.getpid()}.ndjson"
    with f.open("w") as fh:
        for e in tl:
            fh.write(json.dumps(e) + "\n")

    verdict = []

    def on_line(line):
        m = _RE_CONFLICT.match(line)
        if m:
            conflicts.append(int(m[1]))
        if "TRACE_RESULT" in line:
            verdict.append(line)

    st = C.run_tlc("IsolationTrace", C.SPEC / "IsolationTrace.cfg", on_line=on_line, workers=1, env={"TRACE_FILE": str(f)}, tag="IsolationTrace", prefixes=("<<",), timeout=1800, xmx="6g")
    if st.error or not verdict:
        raise C.MachineryError(f"IsolationTrace failed: {st.error}\n" + "\n".join(st.tail[-20:]))
    rep.add_tlc(st, f"IsolationTrace ({len(tl)} logged Parse results)")
    first = {}
    for e in events:
        first.setdefault(e["key"], e)
    seen_keys = set()
    for ln in conflicts:
        e = events[ln - 1]
        if (e["key"], e["res"]) in seen_keys:
            continue
        seen_keys.add((e["key"], e["res"]))
        rep.violation(
            {"kind": "not-isolated", "key": e["key"], "where": e["src"], "result": e["res"][:600], "reference_where": first[e["key"]]["src"], "reference_result": first[e["key"]]["res"][:600]},
            f"result for key {e['key']} observed in [{e['src']}] differs from the one observed in [{first[e['key']]['src']}]: {e['res'][:200]} vs {first[e['key']]['res'][:200]}",
        )
    f.unlink()
    rep.traces = len(hs) + nsched
    rep.evaluations = len(events)
    rep.distinct_count = len(hs) + nsched
    rep.exhaustive = False
    rep.rule = (
        f"all histories of Create(g, opt)/Generate/Parse(ok|fail) of length {n} over 3 grammars (sharing built-ins, lazy caches, a fused SKIP rule) x 3 optimizer settings, each followed by every case on every live object, "
        "each in a pristine forked process; all schedules with <= 2 preemptions on a step lattice for three sharing scenarios, concurrent parser creation, uncontrolled stress; a case = one history or one schedule"
    )
    rep.assumptions = ["line-level scheduling of CPython code (finer interleavings inside one line / inside the regex C extension are not explored)", "results digested over tree or failure position, expected/unexpected sets, rule stack and message"]
    return rep.finish()
