"""C10 - the grammar front end accepts exactly pest v2 syntax, with the denoted structure.

Oracle    : spec/MetaTrace.tla / MetaShort.tla - the repository's copy of pest's meta-grammar (committed as the PestAst constant
            spec/MetaGrammar.json, re-checked against tests/grammars/meta.pest on every run) interpreted by PestSem in TLC:
            Valid(text) == Outcome(Meta, "grammar_rules", text, 0).ok, and the parse tree of a valid text, folded, is the structure
            it denotes.
Code->spec: texts (hand-written probes, the bundled .pest files, sentences rendered from TLC-enumerated grammar ASTs with seeded
            trivia / parenthesis / escape variation, token- and character-level mutations, prefixes; all strings over the grammar
            alphabet up to length 3/4 enumerated by TLC) are loaded with Parser.from_grammar(optimizer=None); the front end must accept
            iff the recogniser does, and when both accept the exported rules (names, modifiers, docs, expression structure, bounds,
            slices, decoded literals, tags per rule) must equal the fold of the recogniser's tree.
"""

from __future__ import annotations

import json
import multiprocessing as mp

from . import common as C
from . import frontend as F
from . import gast
from . import metasyntax as MS
from .c09 import write_cfg

SHORT_ALPHABET = 'r={}"\'\\/*~|()^#!&?+.0aP \n'


def compare_structure(text, rec, obs, builtins) -> list[str]:
    """Recogniser tree (folded) vs what the front end built."""
    try:
        f = MS.Fold(text, builtins).grammar(rec["pairs"])
    except Exception as e:  # noqa: BLE001
        raise C.MachineryError(f"fold failed on {text!r}: {type(e).__name__}: {e}") from e
    if "export_error" in obs:
        return [f"exporting the built rules failed: {obs['export_error']}"]
    probs = []
    rules = obs["rules"]
    if any(n in builtins for n in f["rules"]):
        return []  # a rule shadowing a built-in: outside the domain (pest rejects it semantically)
    if len(set(f["order"])) != len(f["order"]):
        return []  # duplicate rule names: outside the domain (pest rejects them semantically)
    if sorted(rules) != sorted(f["rules"]):
        return [f"rule names built {sorted(rules)} != denoted {sorted(f['rules'])}"]
    for n, fr in f["rules"].items():
        br = rules[n]
        if br["mod"] != fr["mod"]:
            probs.append(f"rule {n}: modifier {br['mod']!r} != denoted {fr['mod']!r}")
        bs, btags = MS.strip_tags(gast.norm(br["body"]))
        fs, ftags = MS.strip_tags(gast.norm(fr["body"]))
        if bs != fs:
            probs.append(f"rule {n}: expression structure built {json.dumps(bs)[:300]} != denoted {json.dumps(fs)[:300]}")
        ftags_kept = untaggable_dropped(fr["body"])
        if btags != ftags_kept:
            probs.append(f"rule {n}: tags built {btags} != denoted {ftags_kept}")
        if list(obs["rule_docs"].get(n, [])) != fr["doc"]:
            probs.append(f"rule {n}: doc comments built {obs['rule_docs'].get(n)} != denoted {fr['doc']}")
    if obs["docs"] != f["docs"]:
        probs.append(f"grammar doc built {obs['docs']} != denoted {f['docs']}")
    return probs


def untaggable_dropped(e):
    """Tags in pre-order, leaving out tags written on a literal or built-in (no node to carry it, no pair to tag)."""
    tags = []

    def go(x):
        if isinstance(x, dict):
            if x.get("k") == "tag":
                inner = x["e"]
                nl = inner.get("k") == "alt" and inner["es"] and inner["es"][0] == {"k": "str", "s": [10]} and len(inner["es"]) == 3
                if x.get("grp") or (inner["k"] not in ("str", "istr", "cls", "cset", "any", "soi") and not nl):
                    tags.append(x["t"])
                go(inner)
            else:
                for v in x.values():
                    go(v)
        elif isinstance(x, list):
            for v in x:
                go(v)

    go(e)
    return tags


def out_of_domain(text, rec, builtins) -> bool:
    """Escapes above U+10FFFF or in the surrogate range: syntactically valid, no denotation (pest rejects them after parsing)."""
    if not rec["ok"] or "\\u{" not in text:
        return False
    try:
        f = MS.Fold(text, builtins).grammar(rec["pairs"])
    except Exception:  # noqa: BLE001
        return True

    def cps(x):
        if isinstance(x, dict):
            for k, v in x.items():
                if k in ("s",) and isinstance(v, list):
                    yield from v
                elif k in ("lo", "hi"):
                    yield v
                else:
                    yield from cps(v)
        elif isinstance(x, list):
            for v in x:
                yield from cps(v)

    return any(c > 0x10FFFF or 0xD800 <= c <= 0xDFFF for r in f["rules"].values() for c in cps(r["body"]))


def judge(rep, text, rec, obs, builtins, stats):
    o = obs["none"]
    if out_of_domain(text, rec, builtins):
        stats["out_of_domain"] = stats.get("out_of_domain", 0) + 1
        return
    accepted = o["class"] == "parser"
    if o["class"] in ("other", "timeout"):
        stats["not_total"] += 1  # C11's claim; for C10 it is a refusal
    if rec["ok"] and not accepted:
        rep.violation({"kind": "valid-rejected", "text": text, "front_end": o}, f"valid pest grammar refused: {text[:120]!r} -> {o.get('type')}: {(o.get('message') or '').splitlines()[0] if o.get('message') else ''}")
    elif not rec["ok"] and accepted:
        rep.violation({"kind": "invalid-accepted", "text": text, "built": o.get("rules")}, f"text that is not a valid pest grammar accepted: {text[:120]!r} -> built {json.dumps(o.get('rules'))[:200]}")
    elif rec["ok"] and accepted:
        stats["both_accept"] += 1
        for pr in compare_structure(text, rec, o, builtins):
            rep.violation({"kind": "structure", "text": text, "problem": pr}, f"{text[:120]!r}: {pr}")
    else:
        stats["both_reject"] += 1


def run(tier: str) -> int:
    rep = C.Report("C10", tier)
    rep.distinct = None
    pest = C.import_pest()
    thorough = tier == "thorough"
    MS.check_meta_constant(pest)
    builtins = set(pest.Parser.BUILTIN)
    stats = {"both_accept": 0, "both_reject": 0, "not_total": 0}
    pool = mp.get_context("fork").Pool(12, initializer=F._init)

    # 1. generated / bundled / mutated texts
    texts, src = F.gather_texts(tier, rep)
    fut = pool.apply_async(F.observe_many, (texts,)) if len(texts) < 400 else None
    chunks = [texts[i : i + 100] for i in range(0, len(texts), 100)]
    futs = [pool.apply_async(F.observe_many, (c,)) for c in chunks]
    recs, st = MS.recognise(texts, "c10")
    rep.add_tlc(st, f"MetaTrace ({len(texts)} texts)")
    observed = [o for f in futs for o in f.get(timeout=3600)]
    prods = set()

    def names(ps):
        for p in ps:
            prods.add(p[0])
            names(p[3])

    for t, rec, obs in zip(texts, recs, observed):
        rep.evaluations += 1
        if rec["ok"]:
            names(rec["pairs"])
        judge(rep, t, rec, obs, builtins, stats)
    rep.sample({"text": texts[len(F.HAND) + 20][:200], "recogniser_valid": recs[len(F.HAND) + 20]["ok"]})
    meta = json.loads(MS.META_JSON.read_text())
    non_silent = {n for n, r in meta.items() if r["mod"] != "_" and n not in ("inner_str", "inner_chr", "escape", "code", "unicode", "hex_digit")}
    missing = sorted(non_silent - prods - {"EOI"})
    rep.extra["meta_productions_exercised"] = len(non_silent & prods)
    rep.extra["meta_productions_never_exercised"] = missing
    if missing:
        raise C.MachineryError(f"vacuity: meta-grammar productions never exercised by a valid text: {missing}")

    # 2. all short strings (TLC-enumerated with the recogniser's verdict)
    n = 3 if not thorough else 4
    cfg = write_cfg("MetaShort", "Spec", {"N": n, "Alphabet": "{" + ", ".join(str(ord(c)) for c in SHORT_ALPHABET) + "}"}, invariants=["Emit"])
    short: list[tuple[str, bool]] = []
    st = C.run_tlc("MetaShort", cfg, on_line=lambda ln: short.append((lambda r: ("".join(chr(c) for c in r["t"]), r["ok"]))(C.decode_printt(ln))), workers=8 if thorough else 4, env={"META_FILE": str(MS.META_JSON)}, tag="MetaShort", xss="512m", timeout=3000)
    C.require_tlc_ok(st, "MetaShort")
    rep.add_tlc(st, f"MetaShort: all strings over {len(SHORT_ALPHABET)} symbols up to length {n}")
    stexts = [t for t, _ in short]
    chunks = [stexts[i : i + 2000] for i in range(0, len(stexts), 2000)]
    sobs = [o for f in [pool.apply_async(F.observe_many, (c,)) for c in chunks] for o in f.get(timeout=3600)]
    for (t, ok), obs in zip(short, sobs):
        rep.evaluations += 1
        rec = {"ok": ok, "pairs": None}
        o = obs["none"]
        accepted = o["class"] == "parser"
        if ok != accepted:
            kind = "valid-rejected" if ok else "invalid-accepted"
            rep.violation({"kind": kind, "text": t, "front_end": {k: v for k, v in o.items() if k != "rules"}}, f"short text {t!r}: recogniser says {'valid' if ok else 'invalid'}, front end {'accepts' if accepted else 'refuses (' + str(o.get('type')) + ')'}")
        elif ok:
            stats["both_accept"] += 1
        else:
            stats["both_reject"] += 1
    pool.close()
    pool.join()
    rep.traces = rep.evaluations
    rep.distinct_count = stats["both_accept"]
    rep.extra.update({"text_sources": src, "short_strings": len(short), **stats})
    rep.rule = (
        "a case = one grammar text: hand-written probes, bundled .pest files, sentences rendered from TLC-enumerated ASTs with seeded surface variation, token/char mutations, prefixes, "
        f"and all {len(short)} strings over the grammar alphabet up to length {n}; verdict and denoted structure from the meta-grammar recogniser in TLC; non-trivial = valid texts accepted by both"
    )
    rep.exhaustive = False
    rep.assumptions = [
        "spec/MetaGrammar.json == front end's reading of tests/grammars/meta.pest (checked each run; reviewed against the file text)",
        "tags written on literals/built-ins cannot be carried by the AST and are ignored; tag position compared per rule (pre-order list), not per node",
        "rules shadowing built-ins, duplicate rule names, escapes above U+10FFFF: outside the domain (pest rejects them after parsing)",
    ]
    return rep.finish()
