"""Code -> spec: validate recorded parse() calls against PestSem with TLC (spec/ApiTrace.tla)."""

from __future__ import annotations

import json
import re

from . import common as C
from . import gast
from . import modes as M

_RE_EV = re.compile(r'<<"EV", (\d+), "(\w+)">>')


def export_grammar(pest, grammar_text: str, charset: set[int]) -> dict | None:
    """GAST of what the front end built (optimizer=None); None if it uses a node the spec does not model."""
    gast.CHARSET = charset
    p = pest.Parser.from_grammar(grammar_text, optimizer=None)
    g = gast.export_rules(p, pest)
    if any(k.startswith("?") for k in gast.kinds(g)):
        return None
    return g


def refs_defined(g: dict) -> bool:
    names = set(g)
    for r in g.values():
        for t in gast.subterms(r["body"]):
            if t["k"] == "ref" and t["n"] not in names:
                return False
    return True


def observe(pest, parser, rule, text, start):
    o = M.run_parse(pest, parser, rule, text, start, tags=False)
    if "ok" not in o:
        return None, o
    return {"ok": o["ok"], "pairs": o.get("pairs", [])}, o


def validate(grammars: dict[str, dict], events: list[dict], tag: str, xss: str = "1g", timeout: int = 1800):
    """events: [{gid, rule, input(str), start, ok, pairs}] -> list of verdict strings (same order) + stats."""
    d = C.OUT / "traces"
    d.mkdir(parents=True, exist_ok=True)
    gf, tf = d / f"{tag}_grammars.json", d / f"{tag}_events.ndjson"
    gf.write_text(json.dumps(grammars))
    with tf.open("w") as fh:
        for e in events:
            fh.write(json.dumps({"gid": e["gid"], "rule": e["rule"], "input": [ord(c) for c in e["input"]], "start": e["start"], "ok": e["ok"], "pairs": e["pairs"]}) + "\n")
    verdicts: dict[int, str] = {}

    def on_line(line):
        m = _RE_EV.match(line)
        if m:
            verdicts[int(m[1])] = m[2]

    st = C.run_tlc("ApiTrace", C.SPEC / "ApiTrace.cfg", on_line=on_line, workers=1, env={"TRACE_FILE": str(tf), "GRAMMAR_FILE": str(gf)}, tag=f"ApiTrace_{tag}", xss=xss, prefixes=("<<",), timeout=timeout)
    if st.error or len(verdicts) != len(events):
        raise C.MachineryError(f"ApiTrace could not evaluate the trace {tf} ({len(verdicts)}/{len(events)} verdicts): {st.error}\n" + "\n".join(st.tail[-30:]))
    gf.unlink()
    tf.unlink()
    return [verdicts[i + 1] for i in range(len(events))], st
