"""Grammar-text generator for C10 / C11: renders GAST grammars as pest grammar texts with seeded surface variation
(trivia placement, redundant / minimal parentheses, stacked postfix and mixed prefix chains without parentheses, escape
spellings, leading choice operators, doc comments, bound spellings), and token / character level mutations.

The generator is NOT an oracle: what a text denotes, and whether it is valid at all, is decided by the meta-grammar
recogniser (TLC) and the fold of its parse tree.
"""

from __future__ import annotations

import random

GAPS = ["", "", "", " ", " ", "\n", "\t", "  ", "/*c*/", "/* /*n*/ **/", "//c\n", " // x y\n ", "\r\n"]
POSTFIX = {"opt": "?", "star": "*", "plus": "+"}
GRAMMAR_ALPHABET = list("r={}\"'\\/*~|()^#!&?+.0aP \n") + ["_", "-", ",", "[", "]", "@", "$", "x", "u", "9", "<", ":", "\t", "\r", "E"]


def char_spellings(cp: int, rnd: random.Random, quote: str) -> str:
    simple = {10: "\\n", 13: "\\r", 9: "\\t", 92: "\\\\", 34: '\\"', 39: "\\'", 0: "\\0"}
    options = []
    ch = chr(cp)
    if cp >= 32 and ch not in ("\\", quote) and not (0xD800 <= cp <= 0xDFFF):
        options += [ch, ch, ch]
    elif cp in (10, 9, 13) and rnd.random() < 0.3:
        options.append(ch)  # a raw control character is ANY too
    if cp in simple:
        options += [simple[cp]] * 2
    if cp < 256:
        options.append("\\x%02x" % cp if rnd.random() < 0.5 else "\\x%02X" % cp)
    w = rnd.randint(max(2, len("%x" % cp)), 6)
    options.append("\\u{%s}" % (("%0*x" if rnd.random() < 0.5 else "%0*X") % (w, cp)))
    return rnd.choice(options)


def lit(cps, rnd, quote='"'):
    return quote + "".join(char_spellings(c, rnd, quote) for c in cps) + quote


class Renderer:
    def __init__(self, rnd: random.Random, wild: float = 0.35):
        self.rnd = rnd
        self.wild = wild

    def toks(self, e, ctx: int = 1) -> list[str]:  # noqa: PLR0911, PLR0912
        """Token list for e; ctx = minimum precedence that needs no parentheses (alt 1 < seq 2 < prefix 3 < postfix 4 < atom 5)."""
        r = self.rnd
        k = e["k"]
        if k == "alt":
            out: list[str] = ["|"] if r.random() < 0.12 else []
            for i, x in enumerate(e["es"]):
                if i:
                    out.append("|")
                out += self.toks(x, 2)
            p = 1
        elif k == "seq":
            out = []
            for i, x in enumerate(e["es"]):
                if i:
                    out.append("~")
                out += self.toks(x, 3)
            p = 2
        elif k in ("and", "not"):
            # prefix chains without parentheses are valid pest: &!a
            inner_ctx = 3 if r.random() < self.wild else 5
            out = ["&" if k == "and" else "!"] + self.toks(e["e"], inner_ctx)
            p = 3
        elif k in POSTFIX or k in ("exact", "min", "max", "minmax"):
            inner_ctx = 4 if r.random() < self.wild else 5  # stacked postfix without parentheses is valid pest: a*?
            out = self.toks(e["e"], inner_ctx)
            if k in POSTFIX:
                out.append(POSTFIX[k])
            else:
                num = lambda n: ("0" * r.randint(0, 2) + str(n)) if r.random() < 0.2 else str(n)  # noqa: E731
                out.append("{")
                if k == "exact":
                    out += [num(e["n"])]
                elif k == "min":
                    out += [num(e["n"]), ","]
                elif k == "max":
                    out += [",", num(e["n"])]
                else:
                    out += [num(e["m"]), ",", num(e["n"])]
                out.append("}")
            p = 4
        elif k == "tag":
            out = ["#" + e["t"], "="] + self.toks(e["e"], 5 if e["e"]["k"] not in ("and", "not", "opt", "star", "plus", "exact", "min", "max", "minmax") or r.random() > self.wild else 3)
            p = 3
        elif k == "push":
            out, p = ["PUSH", "("] + self.toks(e["e"], 1) + [")"], 5
        elif k == "pushlit":
            out, p = ["PUSH_LITERAL", "(", lit(e["s"], r), ")"], 5
        elif k == "peekslice":
            def integer(n):
                if n < 0:
                    return "-" + "0" * (r.randint(0, 2) if r.random() < 0.2 else 0) + str(-n)
                return str(n)

            out = ["PEEK", "["] + ([integer(e["a"])] if e["ha"] else []) + [".."] + ([integer(e["b"])] if e["hb"] else []) + ["]"]
            p = 5
        elif k == "str":
            out, p = [lit(e["s"], r)], 5
        elif k == "istr":
            out, p = ["^", lit(e["s"], r)], 5
        elif k == "range":
            out, p = [lit([e["lo"]], r, "'"), "..", lit([e["hi"]], r, "'")], 5
        else:
            word = {"any": "ANY", "soi": "SOI", "eoi": "EOI", "peek": "PEEK", "pop": "POP", "drop": "DROP", "peekall": "PEEK_ALL", "popall": "POP_ALL"}.get(k)
            out, p = [word or e["n"]], 5
        if p < ctx or (r.random() < 0.08 and k != "tag"):
            out = ["("] + out + [")"]
        return out

    def grammar_tokens(self, g: dict) -> list[str]:
        r = self.rnd
        out: list[str] = []
        if r.random() < 0.25:
            out += ["//!" + r.choice(["", " ", "  two", "\tdoc text", "x"]) + "\n"] * r.randint(1, 2)
        names = sorted(g)
        r.shuffle(names)
        for n in names:
            if r.random() < 0.25:
                out.append("///" + r.choice(["", " ", " doc", "doc // not a comment", "\t t"]) + "\n")
            out += [n, "="]
            if g[n]["mod"]:
                out.append(g[n]["mod"])
            out += ["{"] + self.toks(g[n]["body"], 1) + ["}"]
        if r.random() < 0.15:
            out.append("/// trailing doc" + r.choice(["", "\n"]))
        return out

    def join(self, toks: list[str]) -> str:
        r = self.rnd
        style = r.random()
        parts = []
        for i, t in enumerate(toks):
            if i:
                if style < 0.3:
                    parts.append(" ")
                elif style < 0.45:
                    parts.append("")
                else:
                    parts.append(r.choice(GAPS))
            parts.append(t)
        lead = r.choice(["", "", " ", "\n", "/*c*/", "// c\n"])
        trail = r.choice(["", "", "\n", " ", "//c", "/*c*/\n"])
        return lead + "".join(parts) + trail

    def render(self, g: dict) -> tuple[str, list[str]]:
        toks = self.grammar_tokens(g)
        return self.join(toks), toks


def mutate_chars(rnd: random.Random, text: str, n: int) -> list[str]:
    out = []
    for _ in range(n):
        if not text:
            out.append(rnd.choice(GRAMMAR_ALPHABET))
            continue
        i = rnd.randrange(len(text) + 1)
        k = rnd.randrange(5)
        c = rnd.choice(GRAMMAR_ALPHABET)
        if k == 0 and i < len(text):
            out.append(text[:i] + text[i + 1 :])
        elif k == 1 and i < len(text):
            out.append(text[:i] + text[i] + text[i:])
        elif k == 2 and i < len(text):
            out.append(text[:i] + c + text[i + 1 :])
        elif k == 3:
            out.append(text[:i] + c + text[i:])
        else:
            out.append(text[:i])  # truncation: texts ending inside a string, escape, comment or rule
    return out


def mutate_tokens(rnd: random.Random, toks: list[str], n: int, joiner) -> list[str]:
    out = []
    extra = ["~", "|", "(", ")", "{", "}", "?", "*", "+", "!", "&", "=", "..", "#t", "^", "PUSH", "PEEK", "[", "]", ",", "1", "-1", '"s"', "'c'", "x", "_", "@", "///d\n", "//!d\n", "/*", "*/", "//"]
    for _ in range(n):
        t = list(toks)
        if not t:
            out.append(rnd.choice(extra))
            continue
        i = rnd.randrange(len(t))
        k = rnd.randrange(5)
        if k == 0:
            del t[i]
        elif k == 1:
            t.insert(i, t[i])
        elif k == 2:
            t[i] = rnd.choice(extra)
        elif k == 3:
            t.insert(i, rnd.choice(extra))
        else:
            j = rnd.randrange(len(t))
            t[i], t[j] = t[j], t[i]
        out.append(joiner(t))
    return out


SOUP_CPS = [92, 92, 110, 114, 116, 48, 120, 117, 123, 125, 34, 39, 10, 9, 97, 66, 0x1F600, 0xE9, 32, 47, 45, 13, 13, 10]


def literal_soup(rnd: random.Random, n: int) -> list[str]:
    """Grammars whose literals mix backslashes, quotes and the escape letters in every order (\\ followed by n, ...)."""
    out = []
    for _ in range(n):
        rules = []
        for j in range(rnd.randint(1, 3)):
            cps = [rnd.choice(SOUP_CPS) for _ in range(rnd.randint(0, 5))]
            kind = rnd.randrange(5)
            if kind == 0:
                body = lit(cps, rnd)
            elif kind == 1:
                body = "^" + lit(cps, rnd)
            elif kind == 2:
                lo, hi = sorted([rnd.choice(SOUP_CPS), rnd.choice(SOUP_CPS)])
                body = lit([lo], rnd, "'") + ".." + lit([hi], rnd, "'")
            elif kind == 3:
                body = "PUSH_LITERAL(" + lit(cps, rnd) + ")"
            else:
                body = lit(cps, rnd) + " ~ " + lit([rnd.choice(SOUP_CPS)], rnd)
            rules.append(f"r{j} = {{ {body} }}")
        out.append("\n".join(rules))
    return out


def escape_probes(rnd: random.Random, thorough: bool) -> list[str]:
    """String and character literals with every short payload after \\x and \\u{ (valid and malformed)."""
    pool = list("09afAF") + ["-", "+", " ", "g", "_", "}"]
    out = []
    for a in pool:
        for b in pool:
            out.append(f'r = {{ "\\x{a}{b}" }}')
            out.append(f"r = {{ '\\x{a}{b}'..'z' }}")
    import itertools  # noqa: PLC0415

    for n in (1, 2, 3):
        for t in itertools.product(pool, repeat=n):
            out.append('r = { "\\u{' + "".join(t) + '}" }')
    for _ in range(300 if not thorough else 3000):
        k = rnd.randint(4, 8)
        payload = "".join(rnd.choice(pool) for _ in range(k))
        out.append(rnd.choice(['r = { "\\u{%s}" }', "r = { '\\u{%s}'..'\\u{10FFFF}' }", 'r = { ^"\\u{%s}x" }', 'r = { PUSH_LITERAL("\\u{%s}") }']) % payload)
    for tail in ["", "\\", "\\x", "\\x4", "\\u", "\\u{", "\\u{4", "\\u{41", "\\u{41}", "\\q", "\\ ", "\\\n"]:
        out.append('r = { "a' + tail)
        out.append('r = { "a' + tail + '" }')
        out.append("r = { '" + tail + "'..'b' }")
    return out
