"""Shared machinery: paths, TLC runner, evidence writer, violation/known-finding protocol."""

from __future__ import annotations

import json
import os
import re
import shutil
import subprocess
import sys
import time
from pathlib import Path

VERIF = Path(__file__).resolve().parent.parent
SPEC = VERIF / "spec"
OUT = VERIF / "out"
EVIDENCE = VERIF / "evidence"
REPO = Path(os.environ.get("VERIF_REPO", "/repo"))
SEED = int(os.environ.get("VERIF_SEED", "0") or 0)
NCPU = min(16, os.cpu_count() or 4)
PY = sys.executable

EXIT_OK, EXIT_VIOLATION, EXIT_MACHINERY = 0, 1, 2


def repo_src() -> str:
    return str(REPO / "src")


def import_pest():
    """Import pest from the current working tree of the repository under test."""
    src = repo_src()
    if src not in sys.path:
        sys.path.insert(0, src)
    root = str(REPO)
    if root not in sys.path:
        sys.path.insert(1, root)  # for `examples.*`
    import pest  # noqa: PLC0415

    assert Path(pest.__file__).resolve().is_relative_to(REPO.resolve()), pest.__file__
    return pest


def die_with_parent() -> None:
    """Called in pool workers: a worker must not outlive a harness process that is killed (e.g. by `timeout`)."""
    try:
        import ctypes  # noqa: PLC0415
        import signal  # noqa: PLC0415

        ctypes.CDLL("libc.so.6", use_errno=True).prctl(1, signal.SIGKILL)  # PR_SET_PDEATHSIG
    except Exception:  # noqa: BLE001
        pass


class MachineryError(Exception):
    """The check could not be evaluated (never a property verdict)."""


# ----------------------------------------------------------------------------- TLC


class TlcStats:
    def __init__(self) -> None:
        self.generated = 0
        self.distinct = 0
        self.depth = 0
        self.wall = 0.0
        self.ok = False
        self.error: str | None = None
        self.tail: list[str] = []


_RE_STATS = re.compile(r"^(\d+) states generated, (\d+) distinct states found")
_RE_DEPTH = re.compile(r"depth of the complete state graph search is (\d+)")


def run_tlc(
    module: str,
    cfg: str | Path,
    *,
    on_line=None,
    workers: int | str = NCPU,
    timeout: int = 3600,
    env: dict[str, str] | None = None,
    extra: list[str] | None = None,
    tag: str | None = None,
    xss: str | None = None,
    xmx: str | None = None,
    cwd: Path | None = None,
    prefixes: tuple[str, ...] = ('"',),
) -> TlcStats:
    """Run TLC on spec/<module>.tla with config `cfg`; stream stdout lines to `on_line`.

    Lines printed by PrintT(ToJson(..)) arrive as TLA+ string literals ("...."); they are
    decoded and passed to on_line as Python objects via `decode_printt`.
    """
    tag = tag or f"{module}_{os.getpid()}"
    meta = OUT / "tlc" / tag
    shutil.rmtree(meta, ignore_errors=True)
    meta.mkdir(parents=True, exist_ok=True)
    (meta / "tmp").mkdir(exist_ok=True)  # TLC unpacks the community modules into java.io.tmpdir and leaves them there: keep that inside
    cmd = ["java", "-XX:+UseParallelGC", f"-Djava.io.tmpdir={meta / 'tmp'}"]  # the metadir, which is removed when the run is over
    if xss:
        cmd.append(f"-Xss{xss}")
    if xmx:
        cmd.append(f"-Xmx{xmx}")
    cmd += [
        "-cp",
        "/opt/veriftools/tla/tla2tools.jar:/opt/veriftools/tla/CommunityModules-deps.jar",
        "tlc2.TLC",
        "-workers",
        str(workers),
        "-metadir",
        str(meta),
        "-noGenerateSpecTE",
        "-config",
        str(cfg),
    ]
    cmd += extra or []
    cmd.append(f"{module}.tla")
    e = dict(os.environ)
    e.update(env or {})
    st = TlcStats()
    t0 = time.time()
    proc = subprocess.Popen(
        cmd, cwd=str(cwd or SPEC), stdout=subprocess.PIPE, stderr=subprocess.STDOUT, text=True, env=e, bufsize=1 << 20
    )
    deadline = t0 + timeout
    try:
        assert proc.stdout
        for line in proc.stdout:
            line = line.rstrip("\n")
            if on_line is not None and line.startswith(prefixes):
                on_line(line)
                continue
            st.tail.append(line)
            if len(st.tail) > 400:
                del st.tail[:200]
            m = _RE_STATS.match(line)
            if m:
                st.generated, st.distinct = int(m[1]), int(m[2])
            m = _RE_DEPTH.search(line)
            if m:
                st.depth = int(m[1])
            if line.startswith("Error:") and st.error is None:
                st.error = line
            if "Model checking completed. No error has been found." in line:
                st.ok = True
            if time.time() > deadline:
                proc.kill()
                st.error = "timeout"
                break
        proc.wait()
    finally:
        if proc.poll() is None:
            proc.kill()
        shutil.rmtree(meta, ignore_errors=True)
    st.wall = time.time() - t0
    if st.error is None and not st.ok and proc.returncode not in (0,):
        st.error = f"tlc exit {proc.returncode}"
    return st


def decode_printt(line: str):
    """Decode a line printed by PrintT(ToJson(x)): a TLA+ string literal holding JSON."""
    return json.loads(json.loads(line))


def require_tlc_ok(st: TlcStats, what: str) -> None:
    if st.error or not st.ok:
        tail = "\n".join(st.tail[-60:])
        raise MachineryError(f"TLC failed on {what}: {st.error}\n{tail}")


# ----------------------------------------------------------------------------- known findings


def load_known_findings() -> dict:
    p = VERIF / "known_findings.json"
    if not p.exists():
        return {"findings": [], "fixed": []}
    return json.loads(p.read_text())


# ----------------------------------------------------------------------------- reporting


class Report:
    """Collects what one check run covered and found; writes evidence; decides exit code."""

    def __init__(self, prop: str, tier: str, level: str = "model_checking") -> None:
        self.prop = prop
        self.tier = tier
        self.level = level
        self.t0 = time.time()
        self.states = 0
        self.transitions = 0
        self.traces = 0  # behaviours replayed into / traces validated against the implementation
        self.evaluations = 0
        self.distinct: set | None = set()
        self.distinct_count = 0
        self.samples: list = []
        self.violations: list[dict] = []
        self.known: dict[str, int] = {}
        self.known_first: dict[str, str] = {}
        self.extra: dict = {}
        self.assumptions: list[str] = []
        self.rule = ""
        self.exhaustive: bool | None = None
        self.max_violation_files = 25
        self._kf = load_known_findings()
        self.classifier = None

    # -- coverage
    def add_tlc(self, st: TlcStats, label: str | None = None) -> None:
        self.states += st.distinct
        self.transitions += st.generated
        if label:
            self.extra.setdefault("tlc_runs", []).append(
                {"spec": label, "distinct_states": st.distinct, "states_generated": st.generated, "depth": st.depth, "wall_s": round(st.wall, 1)}
            )

    def sample(self, s, limit: int = 6) -> None:
        if len(self.samples) < limit:
            self.samples.append(s)

    # -- findings
    def known_finding(self, kf_id: str, what: str) -> None:
        self.known[kf_id] = self.known.get(kf_id, 0) + 1
        self.known_first.setdefault(kf_id, what)

    def violation(self, case: dict, summary: str) -> None:
        n = len(self.violations)
        rec = {"property": self.prop, "summary": summary, **case}
        self.violations.append({"summary": summary})
        if os.environ.get("VERIF_DUMP_ALL"):
            d = OUT / "replays" / self.prop
            d.mkdir(parents=True, exist_ok=True)
            with (d / "all.ndjson").open("a") as fh:
                fh.write(json.dumps(rec, default=str) + "\n")
        if n < self.max_violation_files:
            d = OUT / "replays" / self.prop
            d.mkdir(parents=True, exist_ok=True)
            path = d / f"{self.tier}_{n:03d}.json"
            path.write_text(json.dumps(rec, indent=1, default=str))
            print(f"VIOLATION property={self.prop} replay={path}")
            print(f"  {summary}"[:600])
        elif n == self.max_violation_files:
            print(f"  ... further violations of {self.prop} are counted but not written out")

    # -- finish
    def finish(self) -> int:
        for kf in self._kf.get("findings", []):
            if kf["property"] == self.prop and kf["id"] in self.known:
                print(f"KNOWN-FINDING: property={self.prop} {kf['id']}: {kf['what']} [{self.known[kf['id']]} cases, e.g. {self.known_first[kf['id']]}]"[:900])
        unlisted = [k for k in self.known if k not in {f["id"] for f in self._kf.get("findings", []) if f["property"] == self.prop}]
        for k in unlisted:  # a finding id that the committed file does not list is a violation
            self.violation({"finding": k, "example": self.known_first[k]}, f"unlisted finding {k}")
        wall = time.time() - self.t0
        cov: dict = {
            "states": int(self.states),
            "transitions": int(self.transitions),
            "traces_validated_against_impl": int(self.traces),
            "samples": self.samples or ["(none)"],
            "evaluations": int(self.evaluations),
            "distinct_nontrivial": int(self.distinct_count if self.distinct is None else max(self.distinct_count, len(self.distinct))),
            "rule": self.rule,
        }
        if self.exhaustive is not None:
            cov["exhaustive"] = self.exhaustive
        cov["known_findings_seen"] = self.known
        cov.update(self.extra)
        ev = {
            "property_id": self.prop,
            "tier": self.tier,
            "seed": SEED,
            "level": self.level,
            "coverage": cov,
            "assumptions": self.assumptions,
            "wall_s": round(wall, 2),
            "violations": len(self.violations),
        }
        EVIDENCE.mkdir(exist_ok=True)
        (EVIDENCE / f"{self.prop}.json").write_text(json.dumps(ev, indent=1, default=str) + "\n")
        status = "VIOLATIONS" if self.violations else "ok"
        print(
            f"[{self.prop} {self.tier}] {status}: states={self.states} transitions={self.transitions} "
            f"replayed={self.traces} evaluations={self.evaluations} violations={len(self.violations)} "
            f"known={sum(self.known.values())} wall={wall:.1f}s"
        )
        return EXIT_VIOLATION if self.violations else EXIT_OK
