"""C07 - parse() is total and deterministic: Pairs or PestParsingError, nothing else, repeatably.

Outcome classification over the union of the well-formed families (core, trivia, modifiers, stack, tags), all
four execution modes, all start positions on part of them; boundary inputs (empty input, empty stack, input
ending mid-construct) are inside "all strings up to MaxLen".  Every call is made twice on the same object.
"""

from __future__ import annotations

from . import common as C
from . import replay


LONG_GRAMMARS = [
    ('r = { "a"* }', "r"),
    ('r = { ("a" | "b")* ~ EOI }', "r"),
    ('r = { (!"b" ~ ANY)* ~ "b"? }', "r"),
    ('r = { s* ~ EOI }\ns = { "a" ~ "b"? }\nWHITESPACE = _{ " " }', "r"),
    ('r = { (s ~ ",")* ~ s? }\ns = @{ ASCII_ALPHA+ }\nWHITESPACE = _{ " " | NEWLINE }\nCOMMENT = _{ "#" ~ (!NEWLINE ~ ANY)* }', "r"),
    ('r = { PUSH("a")* ~ POP* ~ EOI }', "r"),
    ('r = { ("a"{2,3})* ~ "a"{,2} ~ EOI }', "r"),
]


def long_inputs(rep, thorough: bool) -> None:
    """Flat inputs far longer than the enumerated ones: repetitions are loops, so length must not cost recursion depth."""
    import sys  # noqa: PLC0415

    from . import modes as M  # noqa: PLC0415

    pest = C.import_pest()
    n = 20000 if not thorough else 200000
    texts = ["a" * n, ("ab" * n)[:n], "a " * (n // 2), ("ab, cd # x\n" * (n // 10)), "a" * (n - 1) + "b", "a" * (n // 2) + "c" + "a" * (n // 2), ""]
    old = sys.getrecursionlimit()
    sys.setrecursionlimit(1000)  # CPython's default: what a user has
    count = 0
    try:
        for g, rule in LONG_GRAMMARS:
            seen = {}
            for mode in M.MODES:
                try:
                    p, _ = M.build(pest, g, mode)
                except Exception as e:  # noqa: BLE001
                    rep.violation({"kind": "build", "grammar": g, "mode": mode}, f"{g!r} failed to build in mode {mode}: {type(e).__name__}: {e}")
                    continue
                for i, t in enumerate(texts):
                    o = M.run_parse(pest, p, rule, t, timeout=120)
                    o2 = M.run_parse(pest, p, rule, t, timeout=120)
                    count += 2
                    if "ok" not in o or o != o2:
                        rep.violation({"kind": "long-input", "grammar": g, "mode": mode, "rule": rule, "input": f"text #{i}: {t[:24]!r}... ({len(t)} characters)", "observed": {k: v for k, v in o.items() if k != "pairs"}},
                                      f"{g!r} [{mode}] on a flat input of {len(t)} characters ({t[:16]!r}...): {str({k: v for k, v in o.items() if k != 'pairs'})[:160]}{'' if o == o2 else ' (second call differs)'}")
                    key = (i, o.get("ok"), str(o.get("pairs"))[:2000] if o.get("ok") else None)
                    if seen.setdefault(i, key) != key:
                        rep.violation({"kind": "long-input-modes", "grammar": g, "mode": mode, "rule": rule, "input": f"text #{i} ({len(t)} characters)"}, f"{g!r} on a flat input of {len(t)} characters: mode {mode} and mode interp disagree on success / tree")
    finally:
        sys.setrecursionlimit(old)
    rep.evaluations += count
    rep.extra["long_flat_inputs"] = {"length": n, "calls": count}


UNI_GRAMMARS = [
    'r = { (LETTER | NUMBER | "_" | "::")* ~ EOI }',
    'r = { (CURRENCY_SYMBOL | "ab") ~ ANY? }',
    'r = { ("::" | LETTER | ^"x1")+ }',
    'r = @{ (!(LETTER | "ab") ~ ANY)* ~ ("ab" | UPPERCASE_LETTER)? }',
    'r = { (ASCII_DIGIT | LETTER | "-" | "--")* }\nWHITESPACE = _{ SPACE_SEPARATOR | "\t" }',
    'r = { id ~ ("." ~ id)* }\nid = @{ (XID_START | "_") ~ XID_CONTINUE* }',
    'r = { (EMOJI | "ok" | \'a\'..\'c\')* ~ EOI }',
]
UNI_INPUTS = ["", "a", "ab", "a1_::b", "::", ":", "$ab", "\u20acx", "abX1x1", "é\u0301ß", "1--2-\u0663", "a.b._c.\u00e9\u0301", "a b\t\u00a0c", "\U0001f600ok\U0001f601b", "ab\u212a::", "x1X1::", "\ud800a", "-", "--"]


def unicode_property_grammars(rep) -> None:
    """Choices that mix built-in Unicode property rules with literals and ranges (the optimizer fuses some of them): the
    properties are opaque to the specification, so what is judged is totality, determinism and agreement of the four modes."""
    from . import modes as M  # noqa: PLC0415

    pest = C.import_pest()
    n = 0
    for g in UNI_GRAMMARS:
        first = {}
        for mode in M.MODES:
            try:
                p, _ = M.build(pest, g, mode)
            except Exception as e:  # noqa: BLE001
                rep.violation({"kind": "build", "grammar": g, "mode": mode}, f"{g!r} failed to build in mode {mode}: {type(e).__name__}: {e}")
                continue
            for t in UNI_INPUTS:
                o, o2 = M.run_parse(pest, p, "r", t), M.run_parse(pest, p, "r", t)
                n += 2
                if "ok" not in o or o != o2:
                    rep.violation({"kind": "total", "grammar": g, "mode": mode, "rule": "r", "input": t, "observed": o}, f"{g!r} [{mode}] on {t!r}: {str(o)[:160]}{'' if o == o2 else ' (second call differs)'}")
                key = (o.get("ok"), str(o.get("pairs")))
                if first.setdefault(t, key) != key:
                    rep.violation({"kind": "modes-disagree", "grammar": g, "mode": mode, "rule": "r", "input": t, "observed": o}, f"{g!r} on {t!r}: mode {mode} and mode interp disagree on success / tree")
    rep.evaluations += n
    rep.extra["unicode_property_probe_calls"] = n


def peek_slice_probes(rep) -> None:
    """PEEK[a..b] with every small index pair on stacks of depth 0..3.  What an index outside the stack should MATCH is pinned by no
    statement (pest fails, Python slices clamp) - but whatever it does, it must be Pairs or PestParsingError, the same on a second
    call and in all four modes."""
    from . import modes as M  # noqa: PLC0415

    pest = C.import_pest()
    idx = ["", "0", "1", "2", "3", "-1", "-2", "-3", "-4"]
    n = 0
    for depth in range(4):
        setup = " ~ ".join(['PUSH("x")'] * depth + ['"-"'])
        for a in idx:
            for b in idx:
                g = f'r = {{ {setup} ~ PEEK[{a}..{b}] ~ "y"? ~ EOI }}'
                first = {}
                for mode in M.MODES:
                    try:
                        p, _ = M.build(pest, g, mode)
                    except Exception as e:  # noqa: BLE001
                        rep.violation({"kind": "build", "grammar": g, "mode": mode}, f"{g!r} failed to build in mode {mode}: {type(e).__name__}: {e}")
                        continue
                    for t in ("x" * depth + "-" + "x" * k + tail for k in range(depth + 2) for tail in ("", "y")):
                        o, o2 = M.run_parse(pest, p, "r", t), M.run_parse(pest, p, "r", t)
                        n += 2
                        if "ok" not in o or o != o2:
                            rep.violation({"kind": "total", "grammar": g, "mode": mode, "rule": "r", "input": t, "observed": o}, f"{g!r} [{mode}] on {t!r}: {str(o)[:160]}{'' if o == o2 else ' (second call differs)'}")
                        key = (o.get("ok"), str(o.get("pairs")))
                        if first.setdefault(t, key) != key:
                            rep.violation({"kind": "modes-disagree", "grammar": g, "mode": mode, "rule": "r", "input": t, "observed": o}, f"{g!r} on {t!r}: mode {mode} and mode interp disagree on success / tree")
    rep.evaluations += n
    rep.extra["peek_slice_probe_calls"] = n


def run(tier: str) -> int:
    rep = C.Report("C07", tier)
    rep.distinct = None
    thorough = tier == "thorough"
    modes = ("interp", "gen", "opt", "optgen")
    if not thorough:
        fams = [
            {"Family": "core2", "MaxLen": 3, "Starts": "all", "Sample": 200, "workers": 2},
            {"Family": "core3", "MaxLen": 4, "Starts": "zero", "Sample": 200, "workers": 3},
            {"Family": "trivia3", "MaxLen": 4, "Starts": "zero", "Sample": 120, "workers": 3},
            {"Family": "mods", "MaxLen": 3, "Starts": "all", "Sample": 150, "workers": 3},
            {"Family": "stack", "MaxLen": 4, "Starts": "zero", "Sample": 500, "workers": 3},
            {"Family": "stack1", "MaxLen": 3, "Starts": "zero", "Sample": 0, "workers": 3, "style": "both"},
            {"Family": "stackdeep", "MaxLen": 3, "Starts": "zero", "Sample": 1200, "workers": 3},
            {"Family": "tags", "MaxLen": 3, "Starts": "zero", "Sample": 150, "workers": 2},
            {"Family": "optsk", "MaxLen": 3, "Starts": "all", "Sample": 150, "workers": 3, "style": "min"},
            {"Family": "trivfx", "MaxLen": 3, "Starts": "zero", "Sample": 150, "workers": 3},
            {"Family": "ci", "MaxLen": 3, "Starts": "zero", "Sample": 100, "workers": 3},
            {"Family": "names", "MaxLen": 3, "Starts": "zero", "Sample": 250, "workers": 3},
            {"Family": "bounds", "MaxLen": 3, "Starts": "zero", "Sample": 300, "workers": 3},
            {"Family": "stacke", "MaxLen": 3, "Starts": "zero", "Sample": 300, "workers": 3},
            {"Family": "nl", "MaxLen": 3, "Starts": "all", "Sample": 150, "workers": 3},  # failures after a trailing line break, on an empty line
        ]
    else:
        fams = [
            {"Family": "core2", "MaxLen": 4, "Starts": "all", "Sample": 0, "workers": 8},
            {"Family": "core3", "MaxLen": 4, "Starts": "zero", "Sample": 5000, "workers": 8},
            {"Family": "trivia2", "MaxLen": 4, "Starts": "zero", "Sample": 0, "workers": 8},
            {"Family": "trivia3", "MaxLen": 4, "Starts": "zero", "Sample": 0, "workers": 8},
            {"Family": "mods", "MaxLen": 4, "Starts": "zero", "Sample": 0, "workers": 8},
            {"Family": "stack", "MaxLen": 5, "Starts": "zero", "Sample": 0, "workers": 8},
            {"Family": "stack1", "MaxLen": 4, "Starts": "all", "Sample": 0, "workers": 8, "style": "both"},
            {"Family": "stackdeep", "MaxLen": 4, "Starts": "zero", "Sample": 20000, "workers": 8},
            {"Family": "tags", "MaxLen": 4, "Starts": "zero", "Sample": 0, "workers": 8},
            {"Family": "trivfx", "MaxLen": 4, "Starts": "zero", "Sample": 0, "workers": 8},
            {"Family": "ci", "MaxLen": 3, "Starts": "zero", "Sample": 0, "workers": 8},
            {"Family": "names", "MaxLen": 3, "Starts": "zero", "Sample": 0, "workers": 8},
            {"Family": "bounds", "MaxLen": 4, "Starts": "zero", "Sample": 0, "workers": 8},
            {"Family": "stacke", "MaxLen": 4, "Starts": "zero", "Sample": 0, "workers": 8},
            {"Family": "nl", "MaxLen": 4, "Starts": "all", "Sample": 0, "workers": 8},
        ]
    for f in fams:
        replay.run_family(rep, f, "total", modes)
    long_inputs(rep, thorough)
    unicode_property_grammars(rep)
    peek_slice_probes(rep)
    rep.rule = "union of the well-formed families of spec/Families.tla x inputs to MaxLen x four execution modes, each call made twice; a case = (grammar, input, start); non-trivial = reference outcome is a successful parse"
    rep.exhaustive = False
    rep.assumptions = ["domain = WellFormed grammars (no left recursion, no undefined rule, no nullable repetition) as in the statement"]
    return rep.finish()
