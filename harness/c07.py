"""C07 - parse() is total and deterministic: Pairs or PestParsingError, nothing else, repeatably.

Outcome classification over the union of the well-formed families (core, trivia, modifiers, stack, tags), all
four execution modes, all start positions on part of them; boundary inputs (empty input, empty stack, input
ending mid-construct) are inside "all strings up to MaxLen".  Every call is made twice on the same object.
"""

from __future__ import annotations

from . import common as C
from . import replay


def run(tier: str) -> int:
    rep = C.Report("C07", tier)
    rep.distinct = None
    thorough = tier == "thorough"
    modes = ("interp", "gen", "opt", "optgen")
    if not thorough:
        fams = [
            {"Family": "core2", "MaxLen": 3, "Starts": "all", "Sample": 200, "workers": 2},
            {"Family": "core3", "MaxLen": 4, "Starts": "zero", "Sample": 200, "workers": 3},
            {"Family": "trivia3", "MaxLen": 4, "Starts": "zero", "Sample": 120, "workers": 3},
            {"Family": "mods", "MaxLen": 3, "Starts": "all", "Sample": 150, "workers": 3},
            {"Family": "stack", "MaxLen": 4, "Starts": "zero", "Sample": 500, "workers": 3},
            {"Family": "stack1", "MaxLen": 3, "Starts": "zero", "Sample": 0, "workers": 3, "style": "both"},
            {"Family": "stackdeep", "MaxLen": 3, "Starts": "zero", "Sample": 1200, "workers": 3},
            {"Family": "tags", "MaxLen": 3, "Starts": "zero", "Sample": 150, "workers": 2},
            {"Family": "optsk", "MaxLen": 3, "Starts": "all", "Sample": 150, "workers": 3, "style": "min"},
            {"Family": "trivfx", "MaxLen": 3, "Starts": "zero", "Sample": 150, "workers": 3},
            {"Family": "ci", "MaxLen": 3, "Starts": "zero", "Sample": 100, "workers": 3},
            {"Family": "names", "MaxLen": 3, "Starts": "zero", "Sample": 250, "workers": 3},
            {"Family": "bounds", "MaxLen": 3, "Starts": "zero", "Sample": 300, "workers": 3},
            {"Family": "stacke", "MaxLen": 3, "Starts": "zero", "Sample": 300, "workers": 3},
            {"Family": "nl", "MaxLen": 3, "Starts": "all", "Sample": 150, "workers": 3},  # failures after a trailing line break, on an empty line
        ]
    else:
        fams = [
            {"Family": "core2", "MaxLen": 4, "Starts": "all", "Sample": 0, "workers": 8},
            {"Family": "core3", "MaxLen": 4, "Starts": "zero", "Sample": 5000, "workers": 8},
            {"Family": "trivia2", "MaxLen": 4, "Starts": "zero", "Sample": 0, "workers": 8},
            {"Family": "trivia3", "MaxLen": 4, "Starts": "zero", "Sample": 0, "workers": 8},
            {"Family": "mods", "MaxLen": 4, "Starts": "zero", "Sample": 0, "workers": 8},
            {"Family": "stack", "MaxLen": 5, "Starts": "zero", "Sample": 0, "workers": 8},
            {"Family": "stack1", "MaxLen": 4, "Starts": "all", "Sample": 0, "workers": 8, "style": "both"},
            {"Family": "stackdeep", "MaxLen": 4, "Starts": "zero", "Sample": 20000, "workers": 8},
            {"Family": "tags", "MaxLen": 4, "Starts": "zero", "Sample": 0, "workers": 8},
            {"Family": "trivfx", "MaxLen": 4, "Starts": "zero", "Sample": 0, "workers": 8},
            {"Family": "ci", "MaxLen": 3, "Starts": "zero", "Sample": 0, "workers": 8},
            {"Family": "names", "MaxLen": 3, "Starts": "zero", "Sample": 0, "workers": 8},
            {"Family": "bounds", "MaxLen": 4, "Starts": "zero", "Sample": 0, "workers": 8},
            {"Family": "stacke", "MaxLen": 4, "Starts": "zero", "Sample": 0, "workers": 8},
            {"Family": "nl", "MaxLen": 4, "Starts": "all", "Sample": 0, "workers": 8},
        ]
    for f in fams:
        replay.run_family(rep, f, "total", modes)
    rep.rule = "union of the well-formed families of spec/Families.tla x inputs to MaxLen x four execution modes, each call made twice; a case = (grammar, input, start); non-trivial = reference outcome is a successful parse"
    rep.exhaustive = False
    rep.assumptions = ["domain = WellFormed grammars (no left recursion, no undefined rule, no nullable repetition) as in the statement"]
    return rep.finish()
