"""C12 - character terminals and escapes denote exactly the specified code points.

Spec      : spec/CharSets.tla - denotation of ranges / single characters / insensitive ASCII letters / ASCII_* classes / ANY /
            choices of these as canonical interval lists; the optimizer's character-class merge transcribed; TLC checks the
            merge denotes exactly the union of its parts on every small family of ranges and singles (all adjacency / overlap /
            containment patterns) and the relations between the ASCII classes.  spec/Escapes.tla - the value of every escape form.
Spec->code: TLC emits the denotation of every probe term; the harness sweeps code points through the public API with
            probe = _{ (hit | miss)* }, hit = { X }, miss = { ANY } and compares hit sets with the interval lists: all 1,114,112
            code points, four modes (quick: full sweep for the built-ins and a seeded part of the family in two modes, a reduced set -
            everything below U+3000, windows around every boundary, a stride - for the rest).  Unicode property rules have no TLA+
            denotation (TLC has no Unicode data): membership is a function of (rule, code point), so the four modes are compared with
            each other.  Escapes: each TLC-emitted (escape, code point) is written into a string literal and both bounds of a range.
"""

from __future__ import annotations

import multiprocessing as mp
import random

from . import common as C
from . import gast
from . import modes as M
from .c09 import write_cfg

MAXCP = 0x10FFFF
BND = [0, 1, 9, 10, 13, 32, 45, 47, 48, 57, 58, 64, 65, 90, 91, 92, 93, 94, 96, 97, 122, 123, 127, 128, 255, 256, 0x212A, 55295, 55296, 57343, 57344, 65535, 65536, 1114110, 1114111]
_pest = None


def _init():
    global _pest  # noqa: PLW0603
    C.die_with_parent()
    _pest = C.import_pest()


def reduced_points() -> list[int]:
    pts = set(range(0x3000))
    for b in BND:
        pts.update(range(max(0, b - 40), min(MAXCP, b + 40) + 1))
    pts.update(range(0, MAXCP + 1, 251))
    return sorted(pts)


def to_intervals(cps: list[int]) -> list[list[int]]:
    out: list[list[int]] = []
    for c in cps:
        if out and out[-1][1] + 1 == c:
            out[-1][1] = c
        else:
            out.append([c, c])
    return out


def restrict(intervals, pts_set_sorted):
    """Intersect an interval list with a sorted list of points -> sorted list of points."""
    out = []
    import bisect  # noqa: PLC0415

    for lo, hi in intervals:
        i = bisect.bisect_left(pts_set_sorted, lo)
        j = bisect.bisect_right(pts_set_sorted, hi)
        out.extend(pts_set_sorted[i:j])
    return out


def sweep_task(args):
    """(hit expression text, mode, points or None for the full range) -> sorted list of matching code points, or error string."""
    xtext, mode, pts = args
    g = f"probe = _{{ (hit | miss)* }}\nhit = {{ {xtext} }}\nmiss = {{ ANY }}\n"
    try:
        parser, _ = M.build(_pest, g, mode)
    except Exception as e:  # noqa: BLE001
        return f"load/generate failed: {type(e).__name__}: {e}"[:300]
    hits: list[int] = []
    if pts is None:
        chunks = [(base, None) for base in range(0, MAXCP + 1, 65536)]
    else:
        chunks = [(None, pts[i : i + 40000]) for i in range(0, len(pts), 40000)]
    for base, sub in chunks:
        cps = range(base, min(base + 65536, MAXCP + 1)) if sub is None else sub
        text = "".join(map(chr, cps))
        try:
            with M.watchdog(120):
                pairs = parser.parse("probe", text)
        except Exception as e:  # noqa: BLE001
            return f"sweep raised {type(e).__name__}: {e}"[:300]
        n = 0
        for p in pairs:
            n += 1
            if p.end - p.start != 1:
                return f"pair {p.name} spans {p.start}..{p.end}"
            if p.name == "hit":
                hits.append(base + p.start if sub is None else sub[p.start])
        if n != len(text):
            return f"probe covered {n} of {len(text)} characters"
    return hits


def skip_idiom_probes(rep, pest) -> None:
    """A single-character literal as the terminator of the skip idiom (!T ~ ANY)* - what the optimizer turns into SkipUntil and
    the generator into a list of terminators in the generated source - must stop exactly in front of T, for T ASCII, BMP,
    astral, a quote, a backslash, a line break, in all four modes."""
    terms = [("x", "x"), ("\\u{E9}", "\u00e9"), ("\\u{20AC}", "\u20ac"), ("\\u{1F600}", "\U0001f600"), ("\\u{10FFFF}", "\U0010ffff"), ('\\"', '"'), ("\\\\", "\\"), ("\\n", "\n"), ("'", "'"),
             ("\\u{FFFF}", "\uffff"), ("\\u{10000}", "\U00010000"), ("\\0", "\x00"), ("]", "]"), ("^", "^")]
    n = 0
    # the same characters as plain string literals, alone and inside a longer literal, in all four modes (a generated module
    # spells its literals in Python source: nothing may be lost on the way)
    for esc, ch in terms:
        g = f's = {{ "{esc}" }}\nq = {{ "a{esc}b" ~ "{esc}{esc}" }}\n'
        for mode in M.MODES:
            try:
                p, _ = M.build(pest, g, mode)
            except Exception as e:  # noqa: BLE001
                rep.violation({"kind": "literal", "grammar": g, "mode": mode}, f"{g!r} failed to build in mode {mode}: {type(e).__name__}: {e}")
                continue
            for rule, text, want in (("s", ch, len(ch)), ("q", "a" + ch + "b" + ch + ch, 2 + 3 * len(ch)), ("s", "x" if ch != "x" else "y", None), ("s", "", None)):
                n += 1
                o = M.run_parse(pest, p, rule, text)
                got = o["pairs"][0][2] if o.get("ok") and o["pairs"] else None
                if got != want:
                    rep.violation({"kind": "literal", "grammar": g, "mode": mode, "rule": rule, "input": text, "expected_end": want, "observed": str(o)[:200]},
                                  f"literal U+{ord(ch):04X} [{mode}]: rule {rule} on {text!r} ends at {got}, expected {want}")
    for esc, ch in terms:
        for shape, extra in ((f'(!"{esc}" ~ ANY)*', ""), (f'(!("{esc}" | "zz") ~ ANY)*', ""), (f'(!("zz" | "{esc}") ~ ANY)*', "")):
            g = f"x = @{{ {shape} }}\n"
            for mode in M.MODES:
                try:
                    p, _ = M.build(pest, g, mode)
                except Exception as e:  # noqa: BLE001
                    rep.violation({"kind": "skip-idiom", "grammar": g, "mode": mode}, f"{g!r} failed to build in mode {mode}: {type(e).__name__}: {e}")
                    continue
                for text, want in (("ab" + ch + "cd", 2), ("ab\U0001f601cd" + ch, 5), (ch, 0), ("abcd", 4), ("", 0), ("\ud83d" + ch, 1)):
                    n += 1
                    o = M.run_parse(pest, p, "x", text)
                    got = o["pairs"][0][2] if o.get("ok") and o["pairs"] else None
                    if got != want:
                        rep.violation({"kind": "skip-idiom", "grammar": g, "mode": mode, "input": text, "expected_end": want, "observed": str(o)[:200]},
                                      f"{g.strip()!r} [{mode}] on {text!r}: stops at {got}, the terminator U+{ord(ch):04X} is at {want}")
    rep.evaluations += n
    rep.extra["skip_idiom_probes"] = n


def insensitive_mixed_probes(rep, pest) -> None:
    """Insensitive literals that mix ASCII letters with other characters, alone and as alternatives of choices the optimizer fuses:
    every ASCII case variant of the spelled literal matches, nothing else of the same length does, in all four modes."""
    import itertools  # noqa: PLC0415

    lits = ["utf-8", "a-b", "x1y", "q", "a.b", "k_9", "-a", "1"]
    shapes = ['^"{0}"', '^"{0}" | ^"utf-16"', '"zz" | ^"{0}"', '(^"{0}" | "#")+', '^"{0}" | \'0\'..\'0\'']
    n = 0
    for lit in lits:
        variants = {"".join(v) for v in itertools.product(*[(c.lower(), c.upper()) if c.isalpha() else (c,) for c in lit])}
        others = {lit.replace(c, d) for c in lit for d in ("\u212a", "\u017f", "!", "b" if c != "b" else "c")} - variants
        for shape in shapes:
            g = "r = { " + shape.format(lit) + " }\n"
            for mode in M.MODES:
                try:
                    p, _ = M.build(pest, g, mode)
                except Exception as e:  # noqa: BLE001
                    rep.violation({"kind": "insensitive-mixed", "grammar": g, "mode": mode}, f"{g!r} failed to build in mode {mode}: {type(e).__name__}: {e}")
                    continue
                for text, want in [(v, len(v)) for v in sorted(variants)] + [(o, None) for o in sorted(others)]:
                    n += 1
                    o = M.run_parse(pest, p, "r", text)
                    got = o["pairs"][0][2] if o.get("ok") and o["pairs"] else None
                    if (want is not None and (got is None or got < want)) or (want is None and got == len(text) and "+" not in shape):
                        rep.violation({"kind": "insensitive-mixed", "grammar": g, "mode": mode, "input": text, "expected": want, "observed": str(o)[:200]},
                                      f"{g.strip()!r} [{mode}] on {text!r}: matched up to {got}, expected {'a full match' if want is not None else 'no full match'}")
    rep.evaluations += n
    rep.extra["insensitive_mixed_probes"] = n


def run(tier: str) -> int:  # noqa: PLR0912, PLR0915
    rep = C.Report("C12", tier)
    rep.distinct = None
    pest = C.import_pest()
    thorough = tier == "thorough"
    rnd = random.Random(C.SEED)

    # 1. algebra (TLC)
    cfg = write_cfg("CharSetsAlgebra", "Spec", {"U": 4 if not thorough else 5, "Mode": '"algebra"'}, invariants=["MergeSound", "UnionSound", "ClassRelations"])
    st = C.run_tlc("CharSets", cfg, workers=4, tag="CharSetsAlgebra", timeout=900)
    C.require_tlc_ok(st, "CharSets algebra")
    rep.add_tlc(st, "CharSets: MergeSound, UnionSound, ClassRelations")

    skip_idiom_probes(rep, pest)
    insensitive_mixed_probes(rep, pest)

    # 2. denotations of the probe family (TLC) -> sweep
    probes = []
    cfg = write_cfg("CharSetsEmit", "Spec", {"U": 1, "Mode": '"emit"'}, invariants=["DenoteCanonical", "Emit"])
    st = C.run_tlc("CharSets", cfg, on_line=lambda ln: probes.append(C.decode_printt(ln)), workers=2, tag="CharSetsEmit", timeout=600)
    C.require_tlc_ok(st, "CharSets emit")
    rep.add_tlc(st, "CharSets: Denote(term) for the probe family")
    if len(probes) < 100:
        raise C.MachineryError("probe family too small")
    probes.sort(key=lambda p: str(p["term"]))
    red = reduced_points()
    ascii_pts = list(range(128))
    pool = mp.get_context("fork").Pool(14, initializer=_init)
    tasks = []
    builtin_like = [p for p in probes if p["term"]["k"] in ("cls", "any")]
    family = [p for p in probes if p["term"]["k"] not in ("cls", "any")]
    full_family = family if thorough else rnd.sample(family, 8)
    full_ids = {id(p) for p in builtin_like + full_family}

    def has_istr(t):
        return any(x["k"] == "istr" for x in gast.subterms(t)) if t["k"] == "alt" else t["k"] == "istr"

    for p in probes:
        xtext = gast.pm(p["term"], 1)
        insens = has_istr(p["term"])
        for mode in M.MODES:
            if insens:
                pts, scope = ascii_pts, "ascii"  # "ASCII case variants of ASCII input"
            elif id(p) in full_ids and (thorough or mode in ("interp", "optgen")):
                pts, scope = None, "full"
            else:
                pts, scope = red, "reduced"
            tasks.append((p, xtext, mode, scope, pool.apply_async(sweep_task, ((xtext, mode, pts),))))
    full_sweeps = 0
    for p, xtext, mode, scope, fut in tasks:
        got = fut.get(timeout=3600)
        rep.evaluations += {"full": MAXCP + 1, "reduced": len(red), "ascii": 128}[scope]
        if isinstance(got, str):
            rep.violation({"kind": "charset", "terminal": xtext, "mode": mode, "problem": got}, f"terminal {xtext} mode {mode}: {got}")
            continue
        want_iv = p["set"]
        want = restrict(want_iv, red) if scope == "reduced" else restrict(want_iv, ascii_pts) if scope == "ascii" else None
        ok = (to_intervals(got) == [list(x) for x in want_iv]) if scope == "full" else (got == want)
        rep.traces += 1
        full_sweeps += scope == "full"
        if not ok:
            gs = set(got)
            ws = set(want) if want is not None else None
            if ws is None:
                extra = [c for c in got if not any(lo <= c <= hi for lo, hi in want_iv)][:8]
                missing = []
                for lo, hi in want_iv:
                    missing += [c for c in range(lo, min(hi, lo + 200000) + 1) if c not in gs][:8]
            else:
                extra, missing = sorted(gs - ws)[:8], sorted(ws - gs)[:8]
            rep.violation(
                {"kind": "charset", "terminal": xtext, "mode": mode, "scope": scope, "accepted_but_not_denoted": extra, "denoted_but_rejected": missing[:8], "denotation": want_iv},
                f"terminal {xtext} mode {mode} ({scope} sweep): accepts {[hex(c) for c in extra]} outside its denotation, rejects {[hex(c) for c in missing[:8]]} inside it",
            )
        elif scope == "full":
            rep.sample({"terminal": xtext, "mode": mode, "denotation_intervals": want_iv, "sweep": "all 1114112 code points"}, limit=4)
    rep.extra["full_sweeps"] = full_sweeps
    rep.extra["probe_terms"] = len(probes)

    # 3. NEWLINE and multi-letter insensitive literals, per string
    strings = ["", "\n", "\r", "\r\n", "\n\r", "\r\r\n", "\x0b", "\x0c", "\x85", " ", "a"]
    exp_nl = {"\n": 1, "\r": 1, "\r\n": 2, "\n\r": 1, "\r\r\n": 1}
    ci_strings = [a + b for a in "aAbBkKKſ" for b in "bBaAsSſ"] + ["a", "", "ab ", "AB", "Ab"]
    for mode in M.MODES:
        parser, _ = M.build(pest, "nl = { NEWLINE }\nci = { ^\"ab\" }\ncs = { ^\"s\" ~ ^\"K\" }\n", mode)
        for s in strings:
            o = M.run_parse(pest, parser, "nl", s)
            want = exp_nl.get(s)
            got = o["pairs"][0][2] if o.get("ok") else None
            rep.evaluations += 1
            if got != want:
                rep.violation({"kind": "newline", "mode": mode, "input": s, "expected_span": want, "observed": o}, f"NEWLINE on {s!r} mode {mode}: spans {got}, defined {want}")
        for s in ci_strings:
            if not s.isascii():
                continue  # the statement restricts insensitive literals to ASCII input
            o = M.run_parse(pest, parser, "ci", s)
            want = 2 if s[:2].lower() == "ab" else None
            got = o["pairs"][0][2] if o.get("ok") else None
            rep.evaluations += 1
            if got != want:
                rep.violation({"kind": "insensitive", "mode": mode, "input": s, "expected_span": want, "observed": o}, f'^"ab" on {s!r} mode {mode}: spans {got}, defined {want}')

    # 4. Unicode property rules: four modes agree
    from pest.grammar.rules.unicode import UNICODE_RULES  # noqa: PLC0415

    names = sorted(UNICODE_RULES)
    chosen = names if thorough else rnd.sample(names, 6)
    utasks = []
    for n in chosen:
        for mode in M.MODES:
            pts = None if thorough else red
            utasks.append((n, mode, pool.apply_async(sweep_task, ((n, mode, pts),))))
    by_rule: dict[str, dict] = {}
    for n, mode, fut in utasks:
        by_rule.setdefault(n, {})[mode] = fut.get(timeout=7200)
        rep.evaluations += (MAXCP + 1) if thorough else len(red)
    for n, res in by_rule.items():
        base = res["interp"]
        for mode, got in res.items():
            if isinstance(got, str):
                rep.violation({"kind": "unicode-property", "rule": n, "mode": mode, "problem": got}, f"Unicode property rule {n} mode {mode}: {got}")
            elif isinstance(base, list) and got != base:
                d = sorted(set(got) ^ set(base))[:8]
                rep.violation({"kind": "unicode-property", "rule": n, "mode": mode, "differs_from_interp_at": d}, f"Unicode property rule {n}: mode {mode} and the interpreter disagree at {[hex(c) for c in d]}")
        rep.traces += 1
    rep.extra["unicode_property_rules_compared"] = len(chosen)
    pool.close()
    pool.join()

    # 5. escapes
    from . import c12esc  # noqa: PLC0415

    c12esc.run(rep, pest, thorough)

    rep.distinct_count = rep.traces
    rep.exhaustive = thorough
    rep.rule = (
        f"probe family of {len(probes)} terminals (all ASCII_* classes, ANY, ranges with boundaries at @ A Z [ \\ ] ^ ` a z {{ DEL, U+80, U+D7FF/E000, U+FFFF/10000, U+10FFFF; single characters incl. regex metacharacters; "
        "insensitive ASCII letters; mixed choices the optimizer merges) x four modes; a case = one (terminal, mode) sweep over all 1,114,112 code points (or the reduced set in quick) compared with the TLC-emitted denotation; "
        "plus NEWLINE / insensitive strings, Unicode property rules (four-mode agreement) and escapes"
    )
    rep.assumptions = ["regex and CPython for Unicode property data (trusted)", "insensitive literals are swept over ASCII input only, as the statement says", "reversed ranges ('z'..'a') are a load-time matter (C11)", "surrogate code points are not valid \\u escapes in pest and are excluded"]
    return rep.finish()
