"""Corpus: the (grammar, rule, input) samples of the repository's own suite (recorded), the bundled real-world
grammars with corpus files and hand-written inputs, and seeded input mutations."""

from __future__ import annotations

import json
import os
import random
import subprocess

from . import common as C

_cache: dict = {}


def record_suite() -> list[dict]:
    """Run the repository's grammar tests under the recorder; return distinct unoptimized samples."""
    if "suite" in _cache:
        return _cache["suite"]
    out = C.OUT / "rec"
    out.mkdir(parents=True, exist_ok=True)
    f = out / f"suite_{os.getpid()}.ndjson"
    if f.exists():
        f.unlink()
    env = dict(os.environ)
    env.update({"PEST_VERIF_TRACE": "1", "VERIF_REC_OUT": str(f), "PYTHONPATH": f"{C.VERIF / 'harness' / 'plugins'}:{C.REPO / 'src'}", "PYTHONDONTWRITEBYTECODE": "1"})
    cmd = [
        C.PY, "-m", "pytest", "-q", "-x", "-p", "verif_rec", "-p", "no:cacheprovider",
        "--ignore=tests/test_calculator_examples.py",  # regenerates tracked files under examples/
        "--ignore=tests/test_jsonpath_example_compliance.py",
        "tests",
    ]
    r = subprocess.run(cmd, cwd=str(C.REPO), env=env, capture_output=True, text=True, timeout=600)
    if not f.exists():
        raise C.MachineryError(f"suite recorder produced nothing:\n{r.stdout[-2000:]}\n{r.stderr[-2000:]}")
    seen, samples = set(), []
    for line in f.read_text().splitlines():
        e = json.loads(line)
        key = (e["g"], e["rule"], e["input"], e["start"])
        if key in seen:
            continue
        seen.add(key)
        samples.append({"grammar": e["g"], "rule": e["rule"], "input": e["input"], "start": e["start"]})
    f.unlink()
    _cache["suite"] = samples
    _cache["suite_pytest_tail"] = r.stdout.strip().splitlines()[-1:] if r.stdout else []
    return samples


CALC_INPUTS = ["1", "1 + 2", "2 * 3 + 4", "2 + 3 * 4", "(1 + 2) * 3", "2 ^ 3 ^ 2", "-5", "--5", "5!", "3!!", "-(3!)", "x * y + 1", "1 +", "1 + * 2", "10 / 2", "7 - 3 - 2", "-2 ^ 2", "2 ^ -3", " 1\t+\n2 ", "", "(", "((1))", "1 2", "a!b", "12 34 +"]
JSONPATH_INPUTS = ["$", "$.a", "$.a.b[0]", "$['a']", '$["a\\"b"]', "$[*]", "$..a", "$[0:2:1]", "$[?@.a > 1]", "$[?@.a == 'x' && @.b]", "$[?count(@.*) == 2]", "$.a[?(@.b)]", "$[1,2,'x']", "$.", "$[", "$[?@.a ==]", "$..[?length(@) > 0]", "$[?!@.a]", "$[-1]", "$['\\u00e9']", " $", "$ .a", "$[ 1 ]", "$[?@ == null || @ == true]", "$[?match(@.a, 'x.*')]"]
CSV_INPUTS = ["1,2,3\n", "1.5,-2\n3,4\n", "\n", "1,2", "a,b\n", "1,,2\n", "1\r\n2\r\n", ""]
INI_INPUTS = ["a=b\n", "[s]\na=1\n\nb.c=_/x\n", "[s\n", "=\n", "\n\n", "a=b", "[x.y]\n[z]\nk=\n", "a = b\n"]
SQL_INPUTS = ["select * from table", "select a, b from t where a = 1", "insert into t (a) values (1)", "create user \"u\" with password 'p'", "select", "select * from", "drop table t", "select a from t inner join u on t.a = u.b", "SELECT \"A\" FROM \"T\"", "values (1, 'x', null)", "select count(*) from t group by a", ""]
LISTS_INPUTS = ["- a", "- a\n- b", "- a\n  - b", "- a\n  - b\n  - c", "- a\n  - b\n    - c", "- a\n  - b\n- c", "- a\n\t- b\n\t\t- c\n\t- d", "-", "- a\n -b", "", "- a\n  - b\n   - c\n  - d"]


def _read(rel: str) -> str:
    return (C.REPO / rel).read_text(encoding="utf-8")


def bundled() -> list[dict]:
    """The bundled real-world grammars named by C08: JSON, TOML, SQL, HTTP, JSONPath, calculator, lists, INI, CSV."""
    if "bundled" in _cache:
        return _cache["bundled"]
    suite = record_suite()
    by_g: dict[str, list] = {}
    for s in suite:
        by_g.setdefault(s["grammar"], []).append((s["rule"], s["input"]))
    out = []

    def add(name, rel, extra):
        g = _read(rel)
        samples = list(by_g.get(g, [])) + list(extra)
        seen, uniq = set(), []
        for s in samples:
            if s not in seen:
                seen.add(s)
                uniq.append(s)
        out.append({"name": name, "path": rel, "grammar": g, "samples": uniq})

    ex = lambda rel: _read(rel)  # noqa: E731
    add("json", "tests/grammars/json.pest", [("json", ex("tests/examples/example.json")), ("json", "[1, 2.5e-3, \"x\\n\", {\"a\": null}]"), ("json", "{"), ("json", "[1,]"), ("json", "  [ ]  ")])
    add("toml", "tests/grammars/toml.pest", [("toml", ex("tests/examples/example.toml")), ("toml", "a = 1\n[b]\nc = \"d\"\n"), ("toml", "a = \n"), ("toml", "[[x]]\ny = [1, 2]\n")])
    add("sql", "tests/grammars/sql.pest", [("Command", s) for s in SQL_INPUTS])
    add("http", "tests/grammars/http.pest", [("http", ex("tests/examples/example.http")), ("http", "GET / HTTP/1.1\nA: b\n\n"), ("http", "GET /"), ("http", "POST /x HTTP/1.0\n")])
    add("jsonpath", "examples/jsonpath/jsonpath.pest", [("jsonpath", s) for s in JSONPATH_INPUTS])
    add("calculator", "examples/calculator/calculator.pest", [("program", s) for s in CALC_INPUTS])
    add("calculator_prec", "examples/calculator/grammar_encoded_prec.pest", [("program", s) for s in CALC_INPUTS])
    add("lists", "tests/grammars/lists.pest", [("lists", s) for s in LISTS_INPUTS])
    add("ini", "examples/ini/ini.pest", [("file", ex("examples/ini/example.ini"))] + [("file", s) for s in INI_INPUTS])
    add("csv", "examples/csv/csv.pest", [("file", ex("examples/csv/example.csv"))] + [("file", s) for s in CSV_INPUTS])
    add("json_example", "examples/json/json.pest", [("json", ex("examples/json/example.json")), ("json", "[]"), ("json", "{\"a\": [true, false]}"), ("json", "nul")])
    _cache["bundled"] = out
    return out


def other_suite_grammars() -> list[dict]:
    """Suite grammars that are not in bundled(): grammar.pest, reporting.pest, surround.pest, inline test grammars."""
    b = {x["grammar"] for x in bundled()}
    by_g: dict[str, list] = {}
    for s in record_suite():
        if s["grammar"] not in b:
            by_g.setdefault(s["grammar"], []).append((s["rule"], s["input"]))
    return [{"name": f"suite{i}", "grammar": g, "samples": v} for i, (g, v) in enumerate(sorted(by_g.items()))]


def mutate(rnd: random.Random, text: str, n: int, alphabet: str | None = None) -> list[str]:
    """Seeded single-edit mutations: delete / duplicate / replace a character, truncate."""
    out = []
    if not text:
        return ["x", " ", "\n"][:n]
    alphabet = alphabet or (text + " \n\"'[]{}(),:=.-+*/0aZ$")
    for _ in range(n):
        i = rnd.randrange(len(text))
        k = rnd.randrange(4)
        if k == 0:
            out.append(text[:i] + text[i + 1 :])
        elif k == 1:
            out.append(text[:i] + text[i] + text[i:])
        elif k == 2:
            out.append(text[:i] + rnd.choice(alphabet) + text[i + 1 :])
        else:
            out.append(text[:i])
    return out
