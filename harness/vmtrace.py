"""Code -> spec for PestVM: parses of REAL grammars recorded from the real interpreter (result, furthest-failure position and
every checkpoint / ok / restore call with the registers after it) validated by TLC as behaviours of the machine
(spec/PestVMTrace.tla).  Cases: the (grammar, rule, input) samples of the repository's own suite and the bundled grammars on
corpus inputs.  As with the family comparison (harness/pestvm.py), a rejection is model drift - a NOTE and a count in the
evidence - not a violation: no property pins where an interpreter places its checkpoints."""

from __future__ import annotations

import json
import re

from . import common as C
from . import corpus
from . import gast
from . import modes as M
from . import statetrace

_RE_EV = re.compile(r'<<"EV", (\d+), "(\w+)">>')


def export_for_vm(pest, grammar_text: str, charset: set[int]):
    gast.CHARSET = charset
    gast.BUILTINS_AS_RULES = True
    try:
        p = pest.Parser.from_grammar(grammar_text, optimizer=None)
        g = gast.export_rules(p, pest)
    finally:
        gast.BUILTINS_AS_RULES = False
    if any(k.startswith("?") for k in gast.kinds(g)):
        return None, None
    used = {t["n"] for r in g.values() for t in gast.subterms(r["body"]) if t["k"] == "ref"}
    for n, d in gast.builtin_rule_defs(pest).items():
        if n in used and n not in g:
            g[n] = d
    if any(n not in g for n in used):
        return None, None
    return g, p


def tagged(pairs):
    return [[p[0], p[1], p[2], p[3] or "-", tagged(p[4])] for p in pairs]


def record_case(pest, parser, gid, rule, text, start=0):
    sink: list[dict] = []
    with statetrace.recording(pest, sink, raw=True):
        o = M.run_parse(pest, parser, rule, text, start, tags=True, timeout=60)
    if "ok" not in o:
        return None
    evs = [{"op": e["op"], "pos": e["pos"], "ustk": e["ustk"], "rdepth": e["rdepth"], "adepth": e["adepth"]} for e in sink if e["op"] != "new"]
    return {"gid": gid, "rule": rule, "input": [ord(c) for c in text], "start": start, "ok": o["ok"], "pairs": tagged(o["pairs"]) if o["ok"] else [], "fp": o.get("fpos", 0), "events": evs, "_text": text}


def validate_cases(grammars: dict, cases: list[dict], tag: str):
    """-> (verdicts in case order, TLC stats, grammar file, trace file)."""
    d = C.OUT / "traces"
    d.mkdir(parents=True, exist_ok=True)
    gf, tf = d / f"{tag}_grammars.json", d / f"{tag}_cases.ndjson"
    gf.write_text(json.dumps(grammars))
    with tf.open("w") as fh:
        for c in cases:
            fh.write(json.dumps({k: v for k, v in c.items() if not k.startswith("_")}) + "\n")
    verdicts: dict[int, str] = {}

    def on_line(line):
        m = _RE_EV.match(line)
        if m:
            verdicts[int(m[1])] = m[2]

    st = C.run_tlc("PestVMTrace", C.SPEC / "PestVMTrace.cfg", on_line=on_line, workers=1, env={"TRACE_FILE": str(tf), "GRAMMAR_FILE": str(gf)}, tag=f"PestVMTrace_{tag}", xss="1g", xmx="8g", prefixes=("<<",), timeout=2400)
    if st.error or len(verdicts) != len(cases):
        raise C.MachineryError(f"PestVMTrace could not evaluate {tf} ({len(verdicts)}/{len(cases)} verdicts): {st.error}\n" + "\n".join(st.tail[-25:]))
    return [verdicts[i + 1] for i in range(len(cases))], st, gf, tf


def run(rep: C.Report, pest, thorough: bool) -> None:
    max_len = 160 if not thorough else 1500
    samples = corpus.record_suite()
    by_g: dict[str, list] = {}
    for s in samples:
        by_g.setdefault(s["grammar"], []).append((s["rule"], s["input"], s["start"]))
    for b in corpus.bundled():
        for rule, text in b["samples"][: 6 if not thorough else 40]:
            by_g.setdefault(b["grammar"], []).append((rule, text, 0))
    grammars, cases, skipped = {}, [], 0
    for gi, (gtext, ss) in enumerate(sorted(by_g.items())):
        ss = [s for s in dict.fromkeys(ss) if len(s[1]) <= max_len]
        if not ss:
            continue
        g, parser = export_for_vm(pest, gtext, {ord(c) for s in ss for c in s[1]})
        if g is None:
            skipped += len(ss)
            continue
        gid = f"g{gi}"
        grammars[gid] = g
        for rule, text, start in ss:
            if rule not in g:
                skipped += 1
                continue
            c = record_case(pest, parser, gid, rule, text, start)
            if c is None:
                skipped += 1
                continue
            cases.append(c)
    if len(cases) < 40:
        raise C.MachineryError(f"PestVMTrace: only {len(cases)} cases could be recorded")
    verdicts, st, gf, tf = validate_cases(grammars, cases, "vmtrace")
    rep.add_tlc(st, f"PestVMTrace: {len(cases)} parses of real grammars ({sum(len(c['events']) for c in cases)} checkpoint events) validated as behaviours of PestVM")
    counts: dict[str, int] = {}
    first = None
    for i, c in enumerate(cases):
        v = verdicts[i]
        counts[v] = counts.get(v, 0) + 1
        if v != "accept" and first is None:
            first = {"verdict": v, "rule": c["rule"], "input": c["_text"][:120], "grammar_id": c["gid"], "events_recorded": len(c["events"])}
    rep.traces += len(cases)
    rep.extra["pestvm_trace"] = {"parses_validated": len(cases), "checkpoint_events": sum(len(c["events"]) for c in cases), "verdicts": counts, "skipped": skipped, "grammars": len(grammars), "first_rejected": first}
    if counts.get("accept", 0) != len(cases):
        print(f"NOTE {rep.prop}: PestVMTrace rejects {len(cases) - counts.get('accept', 0)} of {len(cases)} recorded parses of real grammars (model drift, not a violation); first: {json.dumps(first)[:500]}")
    else:
        gf.unlink()
        tf.unlink()
