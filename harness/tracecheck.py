"""Generic helper: validate an NDJSON trace with a TLA+ trace spec whose POSTCONDITION prints TRACE_RESULT."""

from __future__ import annotations

import json

from . import common as C


def validate(module: str, events: list[dict], tag: str, cfg: str | None = None, xss: str | None = None, keep: bool = False):
    """Returns (consumed, total, stats, path)."""
    d = C.OUT / "traces"
    d.mkdir(parents=True, exist_ok=True)
    f = d / f"{tag}.ndjson"
    with f.open("w") as fh:
        for e in events:
            fh.write(json.dumps(e) + "\n")
    st = C.run_tlc(module, cfg or (C.SPEC / f"{module}.cfg"), workers=1, env={"TRACE_FILE": str(f)}, tag=f"{module}_{tag}", xss=xss)
    consumed = None
    for ln in st.tail:
        if "TRACE_RESULT" in ln:
            nums = [int(x) for x in ln.replace("<<", " ").replace(">>", " ").replace(",", " ").split() if x.lstrip("-").isdigit()]
            consumed = nums[0]
    if consumed is None:
        raise C.MachineryError(f"{module} produced no verdict:\n" + "\n".join(st.tail[-40:]))
    if consumed == len(events) and not keep:
        f.unlink()
    return consumed, len(events), st, str(f)
