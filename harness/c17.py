"""C17 - the bundled JSON and calculator languages agree with independent references.

JSON       : spec/JsonDoc.tla - RFC 8259 documents (array/object top level) as a pushdown generator; TLC enumerates every document
             shape up to the token / depth bound (exhaustive) with the lexeme lists (every production of `number`, every string
             escape) and the white-space placements.  Each instantiated document must be accepted by both bundled JSON grammars in four
             modes; its pair tree folded must equal json.loads (the oracle the statement names: nesting, member order, numbers as
             floats, strings as raw source slices) and the generator's skeleton; every proper prefix must be rejected.
Calculator : spec/CalcExpr.tla - every well-formed operator stream over the documented precedence table with the tree it denotes
             (unique tree without precedence inversion; TLC checks uniqueness).  Operands become integers, variables and parenthesised
             sub-expressions (themselves TLC cases), white space is varied; the value of the DENOTED tree, computed with the examples'
             operator meanings, must be returned by all three calculators (precedence climbing, Pratt, grammar-encoded); where the
             reference value is undefined all three must raise.
The calculators are imported from a scratch copy of examples/calculator whose generated parsers are regenerated from the
current tree (the repository's tests do the same, in place).
"""

from __future__ import annotations

import json
import math
import os
import random
import shutil
import sys

from . import common as C
from . import modes as M
from .c09 import write_cfg

# ------------------------------------------------------------------------------------ JSON


def fold_json(pair, flavour):
    """Pair tree -> (python value with numbers as floats and strings/keys as RAW source slices)."""
    n = pair.name
    if n == "value":  # tests/grammars/json.pest wraps every value
        return fold_json(pair.children[0], flavour)
    if n == "json":
        kids = [c for c in pair.children if c.name != "EOI"]
        return fold_json(kids[0], flavour)
    if n == "object":
        out = []
        for pr in pair.children:
            k, v = pr.children
            out.append((k.text, fold_json(v, flavour)))
        return ("obj", out)
    if n == "array":
        return ("arr", [fold_json(c, flavour) for c in pair.children])
    if n == "string":
        return ("str", pair.text)
    if n == "number":
        return ("num", float(pair.text))
    if n in ("bool", "boolean"):
        return ("lit", pair.text)
    if n == "null":
        return ("lit", "null")
    raise ValueError(n)


def skeleton_of(py, raw_tokens):
    """json.loads result -> same shape, consuming raw lexemes in document order for strings / keys."""
    it = iter(raw_tokens)

    def go(v):
        if isinstance(v, dict):
            raise AssertionError
        if isinstance(v, list) and v and v[0] == "__obj__":
            out = []
            for k, val in v[1]:
                rk = next(it)
                out.append((rk, go(val)))
            return ("obj", out)
        if isinstance(v, list):
            return ("arr", [go(x) for x in v])
        if isinstance(v, str):
            return ("str", next(it))
        if isinstance(v, bool) or v is None:
            return ("lit", {True: "true", False: "false", None: "null"}[v])
        return ("num", float(v))

    return go(py)


def json_part(rep, pest, thorough):
    maxtoks, depth = (9, 3) if not thorough else (10, 4)  # (11 tokens with every rotation, white-space form and prefix in four modes took hours)
    cfg = write_cfg("JsonDoc", "Spec", {"MaxToks": maxtoks, "MaxDepth": depth}, invariants=["Balanced", "EmitDoc", "EmitLex"])
    docs, lex = [], {}

    def on_line(line):
        r = C.decode_printt(line)
        if "lex" in r:
            lex.update(r["lex"])
        else:
            docs.append(r["toks"])

    st = C.run_tlc("JsonDoc", cfg, on_line=on_line, workers=4 if not thorough else 8, tag="JsonDoc", timeout=1800)
    C.require_tlc_ok(st, "JsonDoc")
    rep.add_tlc(st, f"JsonDoc MaxToks={maxtoks} MaxDepth={depth}: all document shapes")
    if not docs or not lex:
        raise C.MachineryError("JsonDoc emitted nothing")
    docs.sort()
    grammars = [("tests/grammars/json.pest", "json"), ("examples/json/json.pest", "json")]
    parsers = []
    for path, rule in grammars:
        g = (C.REPO / path).read_text()
        for mode in M.MODES:
            parsers.append((path, mode, rule, M.build(pest, g, mode)[0]))
    rotations = 3 if not thorough else 4
    n_docs = 0
    for di, toks in enumerate(docs):
        for rot in range(rotations):
            counters = {"N": 0, "S": 0, "L": 0, "K": 0}
            lexemes = []
            raw_strings = []
            for t in toks:
                if t in counters:
                    lst = lex[t]
                    lx = lst[(counters[t] + rot * 5 + di) % len(lst)]
                    counters[t] += 1
                    lexemes.append(lx)
                    if t in ("S", "K"):
                        raw_strings.append(lx)
                else:
                    lexemes.append(t)
            for wi, ws in enumerate(lex["W"]):
                if wi and (di + rot + wi) % 3 and not thorough:
                    continue  # quick: each document gets the compact form and one of the two spaced forms
                body = ws.join(lexemes) if wi < 2 else "".join(lx + (ws if (i + di) % 2 else " ") for i, lx in enumerate(lexemes)).rstrip()
                text = (ws if wi else "") + body  # leading white space allowed; no trailing white space (prefix clause)
                n_docs += 1
                try:
                    py = json.loads(text, object_pairs_hook=lambda ps: ["__obj__", ps])
                except Exception as e:  # noqa: BLE001
                    raise C.MachineryError(f"generator produced a document json.loads refuses: {text!r}: {e}") from e
                want = skeleton_of(py, raw_strings)
                for path, mode, rule, parser in parsers:
                    o = M.run_parse(pest, parser, rule, text, keep=True)
                    rep.evaluations += 1
                    if o.get("ok") is not True:
                        rep.violation({"kind": "json-rejected", "grammar": path, "mode": mode, "document": text, "observed": {k: v for k, v in o.items() if not k.startswith("_")}}, f"{path}[{mode}] rejects the RFC 8259 document {text!r}")
                        continue
                    try:
                        roots = [p for p in o["_pairs"] if p.name != "EOI"]
                        got = fold_json(roots[0], path)
                    except Exception as e:  # noqa: BLE001
                        rep.violation({"kind": "json-tree", "grammar": path, "mode": mode, "document": text, "error": f"{type(e).__name__}: {e}"}, f"{path}[{mode}] tree of {text!r} cannot be folded: {type(e).__name__}: {e}")
                        continue
                    if got != want:
                        rep.violation({"kind": "json-tree", "grammar": path, "mode": mode, "document": text, "tree_folded": got, "json_loads": want}, f"{path}[{mode}] tree of {text!r} = {got} does not mirror json.loads = {want}")
                # proper prefixes (of the form without leading white space too)
                if len(text) <= (24 if not thorough else 40):
                    cuts = range(len(text))
                elif not thorough:
                    cuts = sorted({0, 1, len(text) - 1, len(text) // 2, len(text) // 3, (2 * len(text)) // 3})
                else:
                    cuts = sorted({0, 1, 2, len(text) - 1, len(text) - 2} | {(j * len(text)) // 12 for j in range(1, 12)})
                for c in cuts:
                    pre = text[:c]
                    for path, mode, rule, parser in parsers:
                        if mode in ("opt", "gen") and not thorough:
                            continue
                        o = M.run_parse(pest, parser, rule, pre)
                        rep.evaluations += 1
                        if o.get("ok") is not False:
                            rep.violation({"kind": "json-prefix", "grammar": path, "mode": mode, "document": text, "prefix": pre, "observed": o}, f"{path}[{mode}] does not reject the proper prefix {pre!r} of {text!r}: {o}")
                if di % 97 == 0 and rot == 0 and wi == 0:
                    rep.sample({"json_document": text, "skeleton_tokens": toks})
    rep.traces += n_docs
    rep.distinct_count += n_docs
    rep.extra["json_document_shapes"] = len(docs)
    rep.extra["json_documents"] = n_docs


# ------------------------------------------------------------------------------------ calculators


def load_calculators(pest):
    """Scratch copy of examples/calculator with parsers regenerated from the current tree."""
    root = C.OUT / f"calc_{os.getpid()}"
    shutil.rmtree(root, ignore_errors=True)
    (root / "examples").mkdir(parents=True)
    (root / "examples" / "__init__.py").write_text("")
    shutil.copytree(C.REPO / "examples" / "calculator", root / "examples" / "calculator", ignore=shutil.ignore_patterns("__pycache__"))
    cdir = root / "examples" / "calculator"
    (cdir / "parser.py").write_text(pest.Parser.from_grammar((cdir / "calculator.pest").read_text()).generate())
    (cdir / "grammar_encoded_prec_parser.py").write_text(pest.Parser.from_grammar((cdir / "grammar_encoded_prec.pest").read_text()).generate())
    for m in [k for k in sys.modules if k == "examples" or k.startswith("examples.")]:
        del sys.modules[m]
    sys.path[:] = [p for p in sys.path if p != str(C.REPO)]
    sys.path.insert(0, str(root))
    from examples.calculator import grammar_encoded_prec as ge  # noqa: PLC0415
    from examples.calculator import grammar_encoded_prec_parser as gep  # noqa: PLC0415
    from examples.calculator import parser as cp  # noqa: PLC0415
    from examples.calculator import pratt, prec_climber  # noqa: PLC0415

    assert str(root) in cp.__file__, cp.__file__
    pp = pratt.CalculatorParser()
    calcs = {
        "precedence_climbing": lambda s: prec_climber.parse_program(cp.parse(cp.Rule.PROGRAM, s)),
        "pratt": lambda s: pp.parse(s),
        "grammar_encoded": lambda s: ge.parse_program(gep.parse(gep.Rule.PROGRAM, s)),
    }
    return calcs, root


class Undefined(Exception):
    pass


def ref_eval(tree, operands, env):
    """Value of the denoted tree with the examples' operator meanings; Undefined if the value does not exist / is out of range."""
    k = tree[0]
    if k == "p":
        return operands[tree[1]]()
    if k == "pre":
        return -ref_eval(tree[2], operands, env)
    if k == "post":
        v = ref_eval(tree[2], operands, env)
        if not isinstance(v, int) or v < 0:
            raise Undefined("factorial of a negative or non-integer")
        if v > 200:
            raise Undefined("too large")
        return math.factorial(v)
    a, b = ref_eval(tree[2], operands, env), ref_eval(tree[3], operands, env)
    op = tree[1]
    if op == "add":
        return a + b
    if op == "sub":
        return a - b
    if op == "mul":
        return a * b
    if op == "div":
        if b == 0:
            raise Undefined("division by zero")
        return a // b
    if op == "pow":
        if abs(b) > 40 or abs(a) > 10**30 or (a == 0 and b < 0):
            raise Undefined("out of range")
        return pow(a, b)
    raise ValueError(op)


SYMBOL = {"add": "+", "sub": "-", "mul": "*", "div": "/", "pow": "^", "neg": "-", "fac": "!"}


def calc_part(rep, pest, thorough):
    maxtoks = 7 if not thorough else 9
    cfg = write_cfg("CalcExpr", "Spec", {"MaxToks": maxtoks, "PostfixGuard": "TRUE"}, invariants=["Unique", "PrattCorrect", "Emit"])
    cases = []
    st = C.run_tlc("CalcExpr", cfg, on_line=lambda ln: cases.append(C.decode_printt(ln)), workers=8 if thorough else 4, tag="CalcExpr", timeout=3000, xmx="8g")
    C.require_tlc_ok(st, "CalcExpr")
    rep.add_tlc(st, f"CalcExpr MaxToks={maxtoks}: Unique, PrattCorrect; (stream, denoted tree) cases")
    cases.sort(key=lambda c: json.dumps(c["toks"]))
    calcs, root = load_calculators(pest)
    rnd = random.Random(C.SEED)
    env = {"x": 3, "y": 2, "n": 4, "zero": 0}
    small = [c for c in cases if len(c["toks"]) <= 3]
    gaps = ["", " ", " ", "\t", "\n ", "  "]
    n_expr = 0

    def instantiate(case, depth):
        """-> (text pieces, operand thunks keyed by token position)."""
        pieces, operands = [], {}
        for i, t in enumerate(case["toks"], start=1):
            if t["t"] != "p":
                pieces.append(SYMBOL[t["n"]])
                continue
            r = rnd.random()
            if depth < 2 and r < 0.22:
                sub = rnd.choice(small if depth else cases[: max(50, len(cases) // 4)])
                sp, so = instantiate(sub, depth + 1)
                inner_text = join(sp)
                pieces.append("(" + rnd.choice(["", " "]) + inner_text + rnd.choice(["", " "]) + ")")
                operands[i] = (lambda sub=sub, so=so: ref_eval(sub["tree"], so, env))
            elif r < 0.45:
                name = rnd.choice(list(env))
                pieces.append(name)
                operands[i] = (lambda name=name: env[name])
            else:
                v = rnd.choice([0, 1, 2, 3, 3, 2, 5, 10, 12])
                pieces.append(str(v))
                operands[i] = (lambda v=v: v)
        return pieces, operands

    def join(pieces):
        style = rnd.random()
        out = []
        for i, p in enumerate(pieces):
            if i:
                prev = pieces[i - 1]
                need = prev[-1].isalnum() and p[0].isalnum()
                g = " " if style < 0.3 else "" if style < 0.5 else rnd.choice(gaps)
                out.append(g or (" " if need else ""))
            out.append(p)
        return "".join(out)

    reps = 2 if not thorough else 3
    for case in cases:
        for _ in range(reps):
            pieces, operands = instantiate(case, 0)
            text = rnd.choice(["", "", " "]) + join(pieces) + rnd.choice(["", "", " ", "\n"])
            n_expr += 1
            try:
                want = ("value", ref_eval(case["tree"], operands, env))
            except Undefined as e:
                want = ("undefined", str(e))
            except (OverflowError, ZeroDivisionError, ValueError, TypeError) as e:
                want = ("undefined", type(e).__name__)
            if want == ("undefined", "too large") or want == ("undefined", "out of range"):
                continue  # resource bound of the reference evaluator, not a claim
            got = {}
            for name, f in calcs.items():
                rep.evaluations += 1
                try:
                    with M.watchdog(10):
                        v = f(text).evaluate(dict(env))
                    got[name] = ("value", v)
                except M.Timeout:
                    got[name] = ("timeout", None)
                except Exception as e:  # noqa: BLE001
                    got[name] = ("raised", type(e).__name__)
            if want[0] == "value":
                bad = {n: g for n, g in got.items() if g != want and not (g[0] == "value" and isinstance(g[1], float) and isinstance(want[1], float) and math.isclose(g[1], want[1]))}
            else:
                bad = {n: g for n, g in got.items() if g[0] != "raised"}
            if bad:
                rep.violation(
                    {"kind": "calculator", "expression": text, "denoted_tree": case["tree"], "reference": want, "calculators": got, "variables": env},
                    f"calculator expression {text!r}: reference (documented precedence) = {want}, calculators = {got}",
                )
            elif len(case["toks"]) == maxtoks and n_expr % 200 == 0:
                rep.sample({"calculator_expression": text, "denoted_tree": case["tree"], "value": want})
    rep.traces += n_expr
    rep.distinct_count += n_expr
    rep.extra["calculator_streams"] = len(cases)
    rep.extra["calculator_expressions"] = n_expr
    shutil.rmtree(root, ignore_errors=True)


def run(tier: str) -> int:
    rep = C.Report("C17", tier)
    rep.distinct = None
    pest = C.import_pest()
    thorough = tier == "thorough"
    json_part(rep, pest, thorough)
    calc_part(rep, pest, thorough)
    rep.exhaustive = False
    rep.rule = (
        "JSON: every document shape up to the token/depth bound (TLC, exhaustive) x lexeme rotations x white-space placements, each in two grammars x four modes, plus proper prefixes; "
        "calculator: every well-formed operator stream over the documented table up to the bound (TLC, exhaustive) x seeded operand / parenthesis / white-space instantiations x three calculators; "
        "a case = one document or one expression"
    )
    rep.assumptions = ["json.loads is the JSON oracle named by the statement (trusted)", "reference evaluator: floor division, integer pow, math.factorial as in the examples; values beyond its resource bound are skipped", "level_note: generation + denotation by TLC, value comparison by the harness"]
    return rep.finish()
