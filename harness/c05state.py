"""C05/C09 runtime side: record the checkpoint discipline of real parses (stack grammars of the TLC families, hand-written deep
stack grammars, the bundled stack grammars) in the four modes and validate it with TLC (spec/StateTrace.tla)."""

from __future__ import annotations

import random

from . import common as C
from . import gast
from . import modes as M
from . import replay
from . import statetrace
from .stacktrace import STACK_GRAMMARS


def run(rep, thorough: bool) -> None:
    pest = C.import_pest()
    rnd = random.Random(C.SEED)
    events: list[dict] = []
    contexts: dict[int, str] = {}
    jobs = [(g, rule, inputs) for g, rule, inputs in STACK_GRAMMARS]
    for path, rule, inputs in [
        ("tests/grammars/lists.pest", "lists", ["- a", "- a\n  - b\n  - c", "- a\n  - b\n    - c\n- d", "- a\n  - b\n c"]),
        ("tests/grammars/surround.pest", "Quote", ["(abc)", "<a(b)>", "(abc>", "("]),
        ("tests/grammars/json.pest", "json", ['{"a": [1, 2, {"b": null}], "c": "x"}', "[1, 2", "[]"]),
        ("examples/calculator/calculator.pest", "program", ["1 + 2 * (3 - x)!", "1 +", "-(3!)"]),
    ]:
        jobs.append(((C.REPO / path).read_text(), rule, inputs))
    fam_inputs = ["", "a", "b", "ab", "ba", "aab", "abc", "bca", "cc", "abab"]
    for fam, n in (("stackdeep", 60 if not thorough else 600), ("stack1", 60 if not thorough else 400), ("trivia3", 25 if not thorough else 200)):
        for g in replay.enumerate_grammars(rep, fam, n):
            jobs.append((gast.print_grammar(g, style="min"), "r", fam_inputs if fam != "trivia3" else ["a a", " a<>a", "aa  a", "a <", ""]))
    n_parses = 0
    with statetrace.recording(pest, events):
        for gtext, rule, inputs in jobs:
            for mode in M.MODES:
                try:
                    parser, _ = M.build(pest, gtext, mode)
                except Exception:  # noqa: BLE001
                    continue
                for text in inputs:
                    contexts[len(events)] = f"[{mode}] rule {rule} on {text!r} of grammar {gtext.strip()[:200]!r}"
                    statetrace.traced_parse(pest, parser, rule, text, 0, events)
                    n_parses += 1
    if len(events) < 2000:
        raise C.MachineryError("checkpoint recorder captured almost nothing")
    n = statetrace.validate(rep, events, "c05", contexts)
    rep.traces += n_parses
    rep.evaluations += n
    rep.extra["checkpoint_events_validated"] = n
    rep.extra["checkpoint_traced_parses"] = n_parses
