"""C08 - meaning-preserving grammar rewrites leave every parse result unchanged.

Spec      : spec/Rewrites.tla defines the six rewrites as functions on PestAst applied at any site (rule, path) and, in mode
            "neutral", TLC checks RewriteNeutral: for every grammar of the sampled families (core operators, trivia configurations,
            modifier chains, stack operations), every site, every kind and every input, Outcome is unchanged - the relation is valid
            for pest's semantics, including inside atomic rules, predicates, PUSH and trivia rules.
Spec->code: for the bundled real-world grammars (JSON, TOML, SQL, HTTP, JSONPath, calculators, lists, INI, CSV, examples/json) the
            exported AST is handed to TLC, which enumerates all sites and applies the requested (site, kind) rewrites, singly, in pairs
            and nested (one around the other at the same site), with the SAME functions; the harness prints each rewritten grammar and compares original and rewritten through the
            real library on corpus files, suite inputs and seeded mutations, in four modes: equal tree (tags included) or both fail.
"""

from __future__ import annotations

import json
import multiprocessing as mp
import os
import random

from . import apitrace
from . import common as C
from . import corpus
from . import gast
from . import modes as M
from . import replay
from .c09 import write_cfg

KINDS = ["grp", "assoc", "extract", "dup", "never", "notnever", "dup0", "never0", "notnever0"]
_pest = None
_STACK_LEAVES = {"peek", "peekall", "peekslice", "pop", "popall", "drop", "pushlit"}
_LEAVES = _STACK_LEAVES | {"str", "istr", "range", "any", "soi", "eoi", "cls", "cset"}


def _at(e, path):
    """The sub-expression at a Rewrites.tla path (1-based child indices; Kids = es of seq/alt, e of the unary nodes)."""
    for i in path:
        e = e["es"][i - 1] if e["k"] in ("seq", "alt") else e["e"]
    return e


def _init():
    global _pest  # noqa: PLW0603
    C.die_with_parent()
    _pest = C.import_pest()


def neutral_part(rep, thorough):
    """TLC: RewriteNeutral on sampled family grammars."""
    alph = {"core2": [97, 98, 65], "trivia3": [97, 32, 60, 62], "mods": [97, 32, 60, 62], "stack1": [97, 98], "tags": [97, 98, 32]}
    plan = [("core2", 40, 3), ("trivia3", 25, 3), ("mods", 25, 3), ("stack1", 40, 3), ("tags", 20, 3)] if not thorough else [("core2", 300, 3), ("trivia3", 150, 4), ("mods", 200, 4), ("stack1", 300, 3), ("tags", 150, 3)]
    d = C.OUT / "traces"
    d.mkdir(parents=True, exist_ok=True)
    for fam, n, maxlen in plan:
        gs = replay.enumerate_grammars(rep, fam, n)
        f = d / f"c08_family_{fam}.json"
        f.write_text(json.dumps({"grammars": gs, "alphabet": alph[fam]}))
        cfg = write_cfg(f"Rewrites_{fam}", "Spec", {"Mode": '"neutral"', "Family": f'"{fam}"', "MaxLen": maxlen, "Sample": 0}, invariants=["RewriteNeutral"])
        st = C.run_tlc("Rewrites", cfg, workers=8 if not thorough else 14, env={"FAMILY_FILE": str(f)}, tag=f"Rewrites_{fam}", xss="512m", timeout=3000)
        C.require_tlc_ok(st, f"Rewrites neutral {fam}")
        rep.add_tlc(st, f"Rewrites[neutral {fam} x{len(gs)} MaxLen={maxlen}]: RewriteNeutral at every site x 9 kind spellings x all inputs")
        f.unlink()


def compare_task(args):
    name, orig_text, new_text, samples, desc = args
    out = {"n": 0, "viol": []}
    for mode in M.MODES:
        try:
            po, _ = M.build(_pest, orig_text, mode)
        except Exception as e:  # noqa: BLE001
            return {"n": 0, "viol": [], "skip": f"original fails to build in {mode}: {type(e).__name__}"}
        try:
            pn, _ = M.build(_pest, new_text, mode)
        except Exception as e:  # noqa: BLE001
            out["viol"].append({"kind": "rewritten-does-not-build", "grammar": name, "mode": mode, "rewrite": desc, "error": f"{type(e).__name__}: {e}"[:300], "rewritten_grammar": new_text[-1500:]})
            continue
        for rule, text in samples:
            a = M.run_parse(_pest, po, rule, text, 0, timeout=30)
            b = M.run_parse(_pest, pn, rule, text, 0, timeout=30)
            a.pop("fpos", None)
            b.pop("fpos", None)
            out["n"] += 1
            if "ok" in a and (b.get("timeout") or b.get("exc") == "RecursionError"):
                # ((e ~ NEVER) | e) and ((!e ~ NEVER) | e) evaluate e twice; applied to a recursive rule the work doubles at
                # every level of the input's nesting, and every rewrite adds frames: running out of time or of recursion budget is
                # not a changed RESULT.  Counted, not judged.
                out["resource"] = out.get("resource", 0) + 1
                continue
            if a != b:
                out["viol"].append({"kind": "rewrite-changed-result", "grammar": name, "mode": mode, "rewrite": desc, "rule": rule, "input": text, "original": a, "rewritten": b})
                if len(out["viol"]) > 6:
                    return out
    return out


def run(tier: str) -> int:  # noqa: PLR0912, PLR0915
    rep = C.Report("C08", tier)
    rep.distinct = None
    pest = C.import_pest()
    thorough = tier == "thorough"
    rnd = random.Random(C.SEED)
    neutral_part(rep, thorough)

    # bundled grammars -> GAST
    bundled = corpus.bundled()
    gasts, texts, samples = {}, {}, {}
    for b in bundled:
        charset = {ord(c) for _, t in b["samples"] for c in t}
        g = apitrace.export_grammar(pest, b["grammar"], charset)
        if g is None:
            raise C.MachineryError(f"bundled grammar {b['name']} has a node the exporter does not know")
        # round trip: printing the exported AST must rebuild the same AST
        back = apitrace.export_grammar(pest, gast.print_grammar(g, style="min"), charset)
        if gast.norm(back) != gast.norm(g):
            raise C.MachineryError(f"printer round trip failed for bundled grammar {b['name']}")
        gasts[b["name"]] = g
        texts[b["name"]] = gast.print_grammar(g, style="min")
        ss = []
        for rule, t in b["samples"]:
            if len(t) > (1500 if not thorough else 6000):
                t = t[: 1500 if not thorough else 6000]
            ss.append((rule, t))
            for m_ in corpus.mutate(rnd, t, 1 if not thorough else 3):
                ss.append((rule, m_))
        samples[b["name"]] = ss[: 40 if not thorough else 200]
    d = C.OUT / "traces"
    gf = d / f"c08_bundled_{os.getpid()}.json"
    gf.write_text(json.dumps(gasts))

    # sites (TLC)
    cfg = write_cfg("Rewrites_sites", "Spec", {"Mode": '"sites"', "Family": '""', "MaxLen": 0, "Sample": 0}, invariants=["EmitSites"])
    got = []
    st = C.run_tlc("Rewrites", cfg, on_line=lambda ln: got.append(C.decode_printt(ln)), workers=1, env={"GRAMMAR_FILE": str(gf)}, tag="Rewrites_sites", xss="1g", timeout=1800)
    C.require_tlc_ok(st, "Rewrites sites")
    rep.add_tlc(st, "Rewrites[sites]: Sites(g) of every bundled grammar")
    sites = got[0]["sites"]
    rep.extra["rewrite_sites"] = {n: len(v) for n, v in sites.items()}

    # requests: (site, kind) singles and pairs
    per = 60 if not thorough else 600
    reqs = []
    for name, ss in sorted(sites.items()):
        ss = sorted(ss, key=lambda s: (s["rule"], s["path"]))
        pool_ = [(s, k) for s in ss for k in KINDS if k != "assoc" or s["assoc"]]
        chosen = rnd.sample(pool_, min(per, len(pool_)))
        # make sure every kind and the root / deepest sites are present
        for k in KINDS:
            cands = [(s, kk) for s, kk in pool_ if kk == k]
            if cands:
                chosen.append(rnd.choice(cands))
        for s, k in chosen:
            reqs.append({"id": len(reqs), "name": name, "steps": [{"rule": s["rule"], "path": s["path"], "kind": k}]})
        # combinations: two sites, neither path a prefix of the other (or in different rules)
        for _ in range(per // 4):
            (s1, k1), (s2, k2) = rnd.sample(pool_, 2)
            same = s1["rule"] == s2["rule"]
            p1, p2 = s1["path"], s2["path"]
            if same and (p1[: len(p2)] == p2 or p2[: len(p1)] == p1):
                continue
            reqs.append({"id": len(reqs), "name": name, "steps": [{"rule": s1["rule"], "path": p1, "kind": k1}, {"rule": s2["rule"], "path": p2, "kind": k2}]})
        # nested: a second rewrite wrapped around the result of the first AT THE SAME SITE (RewriteAll applies the steps in order and
        # a rewrite at path p leaves an expression at p), e.g. (((DROP | DROP) ~ NEVER) | (DROP | DROP)): two backtracking scopes
        # opened at the same position and stack height, the inner one committing what the outer one abandons.  Only at leaves
        # that are not rule references (evaluating a leaf four times costs nothing; a recursive rule would double per level);
        # every stack terminal gets all nine (inner, outer) spellings of dup / never / notnever.
        leaves = [s for s in ss if _at(gasts[name][s["rule"]]["body"], s["path"]).get("k") in _LEAVES]
        nested = [(s, k1, k2) for s in leaves if _at(gasts[name][s["rule"]]["body"], s["path"])["k"] in _STACK_LEAVES for k1 in ("dup", "never", "notnever") for k2 in ("dup", "never", "notnever")]
        nk = [k for k in KINDS if k != "assoc"]
        nested = nested[: per] + [(s, rnd.choice(nk), rnd.choice(nk)) for s in rnd.sample(leaves, min(per // 4, len(leaves)))]
        for s, k1, k2 in nested:
            reqs.append({"id": len(reqs), "name": name, "steps": [{"rule": s["rule"], "path": s["path"], "kind": k1}, {"rule": s["rule"], "path": s["path"], "kind": k2}]})
    rf = d / f"c08_requests_{os.getpid()}.ndjson"
    with rf.open("w") as fh:
        for r in reqs:
            fh.write(json.dumps(r) + "\n")
    cfg = write_cfg("Rewrites_apply", "Spec", {"Mode": '"apply"', "Family": '""', "MaxLen": 0, "Sample": 0}, invariants=["EmitApply"])
    rewritten = {}
    st = C.run_tlc("Rewrites", cfg, on_line=lambda ln: (lambda r: rewritten.__setitem__(r["id"], r["g"]))(C.decode_printt(ln)), workers=8, env={"GRAMMAR_FILE": str(gf), "REQUEST_FILE": str(rf)}, tag="Rewrites_apply", xss="1g", timeout=3000, xmx="10g")
    C.require_tlc_ok(st, "Rewrites apply")
    rep.add_tlc(st, f"Rewrites[apply]: {len(reqs)} rewritten bundled grammars")
    if len(rewritten) != len(reqs):
        raise C.MachineryError(f"TLC applied {len(rewritten)} of {len(reqs)} requested rewrites")
    gf.unlink()
    rf.unlink()

    pool = mp.get_context("fork").Pool(14, initializer=_init)
    tasks = []
    for r in reqs:
        new_text = gast.print_grammar(rewritten[r["id"]], style="min")
        desc = " + ".join(f"{s['kind']}@{s['rule']}{s['path']}" for s in r["steps"])
        tasks.append(pool.apply_async(compare_task, ((r["name"], texts[r["name"]], new_text, samples[r["name"]], desc),)))
    kinds_seen = set()
    for r, t in zip(reqs, tasks):
        res = t.get(timeout=3600)
        if res.get("skip"):
            raise C.MachineryError(res["skip"])
        rep.evaluations += res["n"]
        if res.get("resource"):
            rep.extra["rewritten_ran_out_of_time_or_recursion_budget_not_judged"] = rep.extra.get("rewritten_ran_out_of_time_or_recursion_budget_not_judged", 0) + res["resource"]
        rep.traces += 1
        for s in r["steps"]:
            kinds_seen.add(s["kind"])
        for v in res["viol"]:
            rep.violation(v, f"{v['grammar']}[{v['mode']}] rewrite {v['rewrite']}: {v['kind']} on {str(v.get('input'))[:60]!r}: {json.dumps(v.get('original'))[:150]} vs {json.dumps(v.get('rewritten'))[:150]} {v.get('error', '')}")
    pool.close()
    pool.join()
    if kinds_seen != set(KINDS):
        raise C.MachineryError(f"rewrite kinds never applied: {set(KINDS) - kinds_seen}")
    rep.sample({"grammar": reqs[3]["name"], "rewrite": reqs[3]["steps"], "rewritten_rule": gast.print_grammar({reqs[3]["steps"][0]["rule"]: rewritten[reqs[3]["id"]][reqs[3]["steps"][0]["rule"]]}, style="min")})
    rep.distinct_count = len(reqs)
    rep.exhaustive = False
    rep.rule = (
        "spec level: every site x 6 kinds x all inputs on sampled family grammars (TLC RewriteNeutral); code level: a case = one rewritten bundled grammar (one rewrite, two at unrelated sites, or two nested at one leaf site - TLC-enumerated sites, "
        f"seeded sample of {per} singles + pairs per grammar) compared with the original on corpus/suite inputs and mutations x four modes"
    )
    rep.assumptions = ["NEVER = the literal U+10FFFD, absent from every input", "failure positions are not compared (the NEVER kinds legitimately add a later failed attempt)", "parse results are compared from start_pos 0"]
    return rep.finish()
