"""./check selftest - demonstrating the binding (anti-vacuity): every trace specification must REJECT a corrupted trace of the
kind it is there to catch, and accept the uncorrupted one; the replay judge must report a corrupted expectation.  Exit 0 = all
engines bite; exit 2 otherwise (this is a statement about the machinery, never about the library)."""

from __future__ import annotations

import json
import os

from . import apitrace
from . import common as C
from . import modes as M
from . import replay
from . import stacktrace
from . import statetrace
from . import tracecheck


def _tlc_lines(module, cfg, events, tag, pattern):
    d = C.OUT / "traces"
    d.mkdir(parents=True, exist_ok=True)
    f = d / f"selftest_{tag}.ndjson"
    with f.open("w") as fh:
        for e in events:
            fh.write(json.dumps(e) + "\n")
    hits = []
    st = C.run_tlc(module, C.SPEC / cfg, on_line=lambda ln: hits.append(ln) if pattern in ln else None, workers=1, env={"TRACE_FILE": str(f)}, tag=f"selftest_{tag}", prefixes=("<<",))
    if st.error:
        raise C.MachineryError(f"{module} failed in selftest: {st.error}")
    f.unlink()
    return hits


def run() -> int:
    pest = C.import_pest()
    done = []

    # 1. StackTrace: a corrupted restore event
    stacktrace.selftest(pest)
    done.append("StackTrace rejects a corrupted restore")

    # 2. TokenTrace: overlapping siblings / unbalanced stream
    good = [{"e": "B", "lo": 0, "hi": 3}, {"e": "S", "r": "a", "p": 0}, {"e": "E", "r": "a", "p": 2}, {"e": "F"}]
    bad = [{"e": "B", "lo": 0, "hi": 3}, {"e": "S", "r": "a", "p": 1}, {"e": "S", "r": "b", "p": 0}, {"e": "E", "r": "b", "p": 1}, {"e": "E", "r": "a", "p": 2}, {"e": "F"}]
    hits = _tlc_lines("TokenTrace", "TokenTrace.cfg", good + bad + good, "tok", "REJECTED")
    if len(hits) != 1 or "5" not in hits[0]:
        raise C.MachineryError(f"TokenTrace selftest: expected exactly the second stream rejected, got {hits}")
    done.append("TokenTrace rejects decreasing positions and accepts the streams around it")

    # 3. StateTrace: a leaked checkpoint, a restore to the wrong position
    z = {"ustk": [], "rdepth": 0, "adepth": 0, "bustk": [], "brdepth": 0, "badepth": 0}
    ev = lambda op, pos, bpos=None: {"op": op, "pos": pos, "bpos": pos if bpos is None else bpos, **z}  # noqa: E731
    ok_parse = [ev("new", 0), ev("checkpoint", 0), ev("restore", 0, 2), ev("checkpoint", 0), ev("ok", 1), ev("end", 0)]
    leak = [ev("new", 0), ev("checkpoint", 0), ev("checkpoint", 1), ev("ok", 1), ev("end", 0)]
    wrong = [ev("new", 0), ev("checkpoint", 1), ev("restore", 0, 3), ev("end", 0)]
    hits = _tlc_lines("StateTrace", "StateTrace.cfg", ok_parse + leak + ok_parse + wrong, "state", "REJECTED")
    if len(hits) != 2:
        raise C.MachineryError(f"StateTrace selftest: expected the leaking and the wrongly restoring parse rejected, got {hits}")
    done.append("StateTrace rejects a leaked checkpoint and a restore to the wrong position")

    # 4. ApiTrace: a corrupted span and a corrupted success flag
    g = {"r": {"mod": "", "body": {"k": "seq", "es": [{"k": "str", "s": [97]}, {"k": "opt", "e": {"k": "ref", "n": "s"}}]}}, "s": {"mod": "", "body": {"k": "str", "s": [98]}}}
    evs = [
        {"gid": "g", "rule": "r", "input": "ab", "start": 0, "ok": True, "pairs": [["r", 0, 2, [["s", 1, 2, []]]]]},
        {"gid": "g", "rule": "r", "input": "ab", "start": 0, "ok": True, "pairs": [["r", 0, 2, [["s", 1, 1, []]]]]},
        {"gid": "g", "rule": "r", "input": "b", "start": 0, "ok": True, "pairs": []},
        {"gid": "g", "rule": "r", "input": "b", "start": 0, "ok": False, "pairs": []},
    ]
    verdicts, _ = apitrace.validate({"g": g}, evs, "selftest")
    if verdicts != ["accept", "tree", "outcome", "accept"]:
        raise C.MachineryError(f"ApiTrace selftest: verdicts {verdicts}")
    done.append("ApiTrace names the failing clause (tree / outcome)")

    # 5. ErrTrace: wrong column, wrong line text
    e0 = {"text": [97, 10, 98, 99], "start": 0, "p": 3, "line": 2, "col": 2, "shown": [98, 99]}
    evs = [e0, {**e0, "col": 3}, {**e0, "shown": [97]}, {**e0, "p": 9}]
    hits = _tlc_lines("ErrTrace", "ErrTrace.cfg", evs, "err", "EV")
    vs = [h.split('"')[3] for h in hits]
    if vs != ["accept", "linecol", "line", "bounds"]:
        raise C.MachineryError(f"ErrTrace selftest: verdicts {vs}")
    done.append("ErrTrace names the failing clause (linecol / line / bounds)")

    # 6. IsolationTrace: a key with two results
    evs = [{"key": "k1", "res": "a"}, {"key": "k2", "res": "b"}, {"key": "k1", "res": "a"}, {"key": "k1", "res": "c"}]
    hits = _tlc_lines("IsolationTrace", "IsolationTrace.cfg", evs, "iso", "CONFLICT")
    if len(hits) != 1 or "4" not in hits[0]:
        raise C.MachineryError(f"IsolationTrace selftest: {hits}")
    done.append("IsolationTrace reports the one conflicting event")

    # 7. LineColTrace: a wrong column in the middle of a text
    evs = [{"new": 1, "nl": 0, "line": 1, "col": 1}, {"new": 0, "nl": 0, "line": 1, "col": 2}, {"new": 0, "nl": 1, "line": 2, "col": 1}, {"new": 0, "nl": 0, "line": 2, "col": 3}]
    consumed, total, _, _ = tracecheck.validate("LineColTrace", evs, "selftest_lc")
    if consumed != 3:
        raise C.MachineryError(f"LineColTrace selftest: consumed {consumed} of {total}")
    done.append("LineColTrace stops at the wrong column")

    # 8. the replay judge reports a corrupted expectation and is silent on the right one
    replay._init_worker()
    gtext = 'r = { "a" ~ s? }\ns = { "b" }\n'
    ctx = {"rule": "r", "modes": ["interp", "gen"], "parsers": {m: M.build(pest, gtext, m)[0] for m in ("interp", "gen")}, "g": g}
    right = [["r", 0, 2, [["s", 1, 2, []]]]]
    if replay.judge_sem(ctx, "ab", 0, right) or not replay.judge_sem(ctx, "ab", 0, [["r", 0, 1, []]]) or not replay.judge_sem(ctx, "ab", 0, 0):
        raise C.MachineryError("replay judge selftest failed")
    done.append("replay judge reports a corrupted expectation")

    # 9. PestVMTrace: a recorded parse with one checkpoint event corrupted / one removed / a wrong tree is rejected with the clause named
    from . import vmtrace  # noqa: PLC0415

    gtext9 = 'r = { ("a" ~ s)* ~ PUSH("b")? ~ !"c" }\ns = { "x" | "y" }\n'
    g9, p9 = vmtrace.export_for_vm(pest, gtext9, {97, 98, 99, 120, 121})
    c_ok = vmtrace.record_case(pest, p9, "g", "r", "axayb")
    import copy  # noqa: PLC0415

    c_ev = copy.deepcopy(c_ok)
    c_ev["events"][3]["pos"] += 1
    c_cnt = copy.deepcopy(c_ok)
    c_cnt["events"].append(dict(c_cnt["events"][-1]))  # one call more than the machine makes
    c_less = copy.deepcopy(c_ok)
    c_less["events"].pop()  # one call fewer
    c_tree = copy.deepcopy(c_ok)
    c_tree["pairs"][0][4][0][2] += 1
    c_fail = vmtrace.record_case(pest, p9, "g", "r", "axc")
    c_fp = copy.deepcopy(c_fail)
    c_fp["fp"] += 1
    vs, _, gf, tf = vmtrace.validate_cases({"g": g9}, [c_ok, c_ev, c_cnt, c_less, c_tree, c_fail, c_fp, c_ok], "selftest_vm")
    if vs != ["accept", "event", "count", "event", "tree", "accept", "fpos", "accept"]:
        raise C.MachineryError(f"PestVMTrace selftest: verdicts {vs}")
    gf.unlink()
    tf.unlink()
    done.append("PestVMTrace names the failing clause (event / count / tree / fpos) and accepts the real recordings around them")

    for d in done:
        print("selftest ok:", d)
    return 0
