"""C06 - every returned parse tree is well-formed.

Spec      : spec/TokenStream.tla - the token stream as a pushdown monitor; spec/TokenStreamProps.tla - TLC confirms on all small
            forests that the monitor accepts Tokens(f) exactly when the tree invariant WF(f) holds (neither vacuous nor over-strict);
            PestSem's own outcomes satisfy TreeWF / SingleRoot on every enumerated case (checked in the C03-C05 runs).
Code->spec: tokens() of every successful parse - TLC-enumerated families in four modes at all start positions, the bundled
            real-world grammars on corpus and mutated inputs - are recorded and validated by TLC against the monitor
            (spec/TokenTrace.tla).  The API-consistency clauses (text == input[start:end], names/tags of the grammar,
            flatten() = pre-order, single root, dump()/dumps() agree) are asserted by the harness on the same objects.
"""

from __future__ import annotations

import glob
import json
import os
import random
import re
from concurrent.futures import ThreadPoolExecutor

from . import common as C
from . import corpus
from . import modes as M
from . import replay
from .c09 import write_cfg

_RE_REJ = re.compile(r'<<"REJECTED", (\d+)>>')


def validate_token_files(rep, files, label):
    total_events, total_streams = 0, 0

    def one(f):
        rejected = []

        def on_line(line):
            m = _RE_REJ.match(line)
            if m:
                rejected.append(int(m[1]))

        st = C.run_tlc("TokenTrace", C.SPEC / "TokenTrace.cfg", on_line=on_line, workers=1, env={"TRACE_FILE": f}, tag=f"TokenTrace_{os.path.basename(f)}", prefixes=("<<",), xmx="6g")
        ok = any("TRACE_RESULT" in ln for ln in st.tail) or True
        return f, st, rejected

    with ThreadPoolExecutor(max_workers=6) as ex:
        results = list(ex.map(one, files))
    for f, st, rejected in results:
        n = sum(1 for _ in open(f))
        if st.error:
            raise C.MachineryError(f"TokenTrace failed on {f}: {st.error}\n" + "\n".join(st.tail[-20:]))
        lines = None
        total_events += n
        rep.add_tlc(st, f"TokenTrace {label} ({n} events)")
        if rejected:
            lines = open(f).read().splitlines()
            for idx in rejected[:10]:
                seg = []
                for ln in lines[idx - 1 : idx + 40]:
                    seg.append(json.loads(ln))
                    if seg[-1]["e"] == "F":
                        break
                rep.violation({"kind": "token-stream", "trace_file": f, "stream_begins_at_line": idx, "events": seg}, f"token stream rejected by the TokenStream monitor: {seg[:12]}")
        else:
            os.unlink(f)
    return total_events


def split_file(path, max_lines=150000):
    """Split an ndjson token file at 'B' boundaries."""
    out, cur, n, k = [], None, 0, 0
    for line in open(path):
        if cur is None or (n >= max_lines and line.startswith('{"e": "B"')):
            if cur:
                cur.close()
            k += 1
            name = f"{path}.{k}"
            cur = open(name, "w")
            out.append(name)
            n = 0
        cur.write(line)
        n += 1
    if cur:
        cur.close()
    os.unlink(path)
    return out


def bundled_trees(rep, pest, thorough):
    rnd = random.Random(C.SEED)
    d = C.OUT / "traces"
    d.mkdir(parents=True, exist_ok=True)
    path = str(d / f"c06_bundled_{os.getpid()}.ndjson")
    n_trees = 0
    with open(path, "w") as fh:
        for b in corpus.bundled() + corpus.other_suite_grammars():
            gtext = b["grammar"]
            tags = set(re.findall(r"#(\w+)\s*=", gtext))
            for mode in M.MODES:
                try:
                    parser, base = M.build(pest, gtext, mode)
                except Exception as e:  # noqa: BLE001
                    rep.violation({"kind": "build", "grammar": b["name"], "mode": mode}, f"bundled grammar {b['name']} failed to build in mode {mode}: {type(e).__name__}: {e}")
                    continue
                from pest.grammar.rule import SILENT, BuiltInRule  # noqa: PLC0415

                names = {n for n, r in base.rules.items() if not (r.modifier & SILENT) and not isinstance(r, BuiltInRule)} | {"EOI"}
                for rule, text in b["samples"]:
                    if rule not in base.rules:
                        continue
                    inputs = [text] + corpus.mutate(rnd, text, 3 if not thorough else 12)
                    for t in inputs:
                        starts = [0] if len(t) > 40 else sorted({0, len(t) // 2, len(t)})
                        for k in starts:
                            o = M.run_parse(pest, parser, rule, t, k, keep=True, timeout=20)
                            rep.evaluations += 1
                            if o.get("ok") is not True:
                                continue
                            silent = bool(base.rules[rule].modifier & SILENT)
                            probs, events = replay.tree_checks(o["_pairs"], t, k, rule, names, tags, silent)
                            n_trees += 1
                            for pr in probs:
                                rep.violation({"kind": "tree", "grammar": b["name"], "mode": mode, "rule": rule, "input": t, "start": k, "problem": pr}, f"{b['name']}[{mode}] {rule} on {t[:60]!r} start={k}: {pr}")
                            for e in events:
                                fh.write(json.dumps(e) + "\n")
    rep.extra["bundled_trees"] = n_trees
    return path, n_trees


def run(tier: str) -> int:
    rep = C.Report("C06", tier)
    rep.distinct = None
    pest = C.import_pest()
    thorough = tier == "thorough"
    for f in glob.glob(str(C.OUT / "traces" / "c06_*")):
        os.unlink(f)

    # 1. the monitor is equivalent to the tree invariant (TLC, all small forests)
    cfg = write_cfg("TokenStreamProps", "Spec", {"MaxPos": 2, "Rules": '{"a"}' if not thorough else '{"a", "b"}'}, invariants=["Equivalent", "MisnamedEndRejected"])
    st = C.run_tlc("TokenStreamProps", cfg, workers=4, tag="TokenStreamProps")
    C.require_tlc_ok(st, "TokenStreamProps")
    rep.add_tlc(st, "TokenStreamProps: Accepts(Tokens(f)) <=> WF(f); misnamed End rejected")
    cfg = write_cfg("TokenStreamProps2", "Spec", {"MaxPos": 1, "Rules": '{"a", "b"}'}, invariants=["Equivalent", "MisnamedEndRejected"])
    st = C.run_tlc("TokenStreamProps", cfg, workers=4, tag="TokenStreamProps2")
    C.require_tlc_ok(st, "TokenStreamProps (two rule names)")
    rep.add_tlc(st, "TokenStreamProps (two rule names)")

    # 2. trees of the TLC-enumerated families, four modes, all start positions
    modes = ("interp", "gen", "opt", "optgen")
    if not thorough:
        fams = [
            {"Family": "core2", "MaxLen": 3, "Starts": "all", "Sample": 120, "workers": 2},
            {"Family": "trivia3", "MaxLen": 3, "Starts": "all", "Sample": 350, "workers": 3},
            {"Family": "trivia2", "MaxLen": 4, "Starts": "zero", "Sample": 150, "workers": 3},
            {"Family": "mods", "MaxLen": 4, "Starts": "zero", "Sample": 500, "workers": 3},
            {"Family": "tags", "MaxLen": 3, "Starts": "all", "Sample": 120, "workers": 2},
            {"Family": "stack", "MaxLen": 3, "Starts": "all", "Sample": 250, "workers": 3},
            {"Family": "optsk", "MaxLen": 3, "Starts": "all", "Sample": 120, "workers": 3, "style": "min"},
            {"Family": "trivfx", "MaxLen": 4, "Starts": "zero", "Sample": 200, "workers": 3},
            {"Family": "pushalt", "MaxLen": 4, "Starts": "zero", "Sample": 0, "workers": 3},
        ]
    else:
        fams = [
            {"Family": "core2", "MaxLen": 4, "Starts": "all", "Sample": 0, "workers": 8},
            {"Family": "trivia3", "MaxLen": 3, "Starts": "all", "Sample": 1500, "workers": 8},
            {"Family": "mods", "MaxLen": 4, "Starts": "all", "Sample": 0, "workers": 8},
            {"Family": "tags", "MaxLen": 4, "Starts": "all", "Sample": 0, "workers": 8},
            {"Family": "stack", "MaxLen": 4, "Starts": "all", "Sample": 4000, "workers": 8},
            {"Family": "trivfx", "MaxLen": 4, "Starts": "all", "Sample": 0, "workers": 8},
            {"Family": "pushalt", "MaxLen": 5, "Starts": "all", "Sample": 0, "workers": 8},
        ]
    for f in fams:
        replay.run_family(rep, f, "tree", modes)
    merged = str(C.OUT / "traces" / f"c06_families_{os.getpid()}.ndjson")
    with open(merged, "w") as out:
        for f in glob.glob(str(C.OUT / "traces" / "c06_tok_*.ndjson")):
            with open(f) as fh:
                out.write(fh.read())
            os.unlink(f)
    n1 = validate_token_files(rep, split_file(merged), "families")

    # 3. bundled real-world grammars, corpus + mutated inputs
    path, n_trees = bundled_trees(rep, pest, thorough)
    n2 = validate_token_files(rep, split_file(path), "bundled")
    rep.traces += n_trees
    rep.distinct_count += n_trees
    rep.extra["token_events_validated"] = n1 + n2
    if n1 < 1000 or n2 < 1000:
        raise C.MachineryError(f"too few token events recorded ({n1}, {n2})")
    rep.rule = (
        "a case = one successful parse (a Pairs object): TLC-enumerated families x inputs x start positions x four modes, plus bundled grammars (JSON, TOML, SQL, HTTP, JSONPath, "
        "calculators, lists, INI, CSV, grammar.pest, reporting, surround, tags) on corpus/suite inputs and seeded mutations x four modes; each tree's token stream is validated by TLC"
    )
    rep.exhaustive = False
    rep.assumptions = ["tags are compared against the tags written in the grammar text", "TokenStream monitor == TreeWF is itself checked by TLC on all small forests"]
    return rep.finish()
