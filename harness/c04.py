"""C04 - implicit WHITESPACE/COMMENT and atomicity modifiers follow pest's rules.

Families (spec/Families.tla): trivia2/trivia3 = operator terms x trivia configurations (silent / non-silent
WHITESPACE, two-element COMMENT, both, two-element WHITESPACE); mods = every triple of rule modifiers on a
chain of three rules x spanning bodies.  Inputs carry trivia at every place (alphabet {a, ' ', '<', '>'}:
leading, between, trailing, doubled, unterminated comment "<").  Reference outcomes (spans AND inner pairs)
from PestSem, replayed into interpreter and generated module.
"""

from __future__ import annotations

from . import common as C
from . import replay
from . import specvssuite


def run(tier: str) -> int:
    rep = C.Report("C04", tier)
    rep.distinct = None
    thorough = tier == "thorough"
    modes = ("interp", "gen")
    specvssuite.run(rep, max_len=6000 if thorough else 700)  # the oracle itself must accept what the repository's suite blesses
    if not thorough:
        fams = [
            {"Family": "trivia2", "MaxLen": 4, "Starts": "zero", "Sample": 350, "workers": 4},
            {"Family": "trivia3", "MaxLen": 4, "Starts": "zero", "Sample": 250, "workers": 4},
            {"Family": "mods", "MaxLen": 4, "Starts": "zero", "Sample": 400, "workers": 4},
            {"Family": "names", "MaxLen": 3, "Starts": "zero", "Sample": 200, "workers": 2},
            {"Family": "trivfx", "MaxLen": 4, "Starts": "zero", "Sample": 350, "workers": 3, "modes": ("interp", "gen", "opt", "optgen")},
            {"Family": "bounds", "MaxLen": 4, "Starts": "zero", "Sample": 450, "workers": 3, "modes": ("interp", "gen", "opt", "optgen")},
            {"Family": "trivpeek", "MaxLen": 5, "Starts": "zero", "Sample": 0, "workers": 2, "modes": ("interp", "gen", "opt", "optgen")},  # trivia that reads the stack
            {"Family": "optinl", "MaxLen": 3, "Starts": "zero", "Sample": 300, "workers": 3, "style": "min", "modes": ("interp", "gen", "opt", "optgen")},  # trivia rules referenced by name
        ]
    else:
        fams = [
            {"Family": "trivia2", "MaxLen": 5, "Starts": "zero", "Sample": 0, "workers": 8},
            {"Family": "trivia3", "MaxLen": 4, "Starts": "zero", "Sample": 0, "workers": 12},
            {"Family": "mods", "MaxLen": 5, "Starts": "zero", "Sample": 0, "workers": 12},
            {"Family": "names", "MaxLen": 4, "Starts": "zero", "Sample": 0, "workers": 8},
            {"Family": "trivfx", "MaxLen": 4, "Starts": "zero", "Sample": 0, "workers": 8, "modes": ("interp", "gen", "opt", "optgen")},
            {"Family": "bounds", "MaxLen": 4, "Starts": "zero", "Sample": 0, "workers": 8, "modes": ("interp", "gen", "opt", "optgen")},
            {"Family": "trivpeek", "MaxLen": 6, "Starts": "zero", "Sample": 0, "workers": 4, "modes": ("interp", "gen", "opt", "optgen")},
            {"Family": "optinl", "MaxLen": 4, "Starts": "zero", "Sample": 0, "workers": 8, "style": "min", "modes": ("interp", "gen", "opt", "optgen")},
        ]
    # trivia around the (!x ~ ANY)* idiom in rules of every modifier, also through the optimizer (which rewrites the idiom)
    fams.append({"Family": "optsk", "MaxLen": 4, "Starts": "zero", "Sample": 250 if not thorough else 0, "workers": 3 if not thorough else 8, "style": "min", "modes": ("interp", "gen", "opt", "optgen")})
    for f in fams:
        replay.run_family(rep, f, "sem", f.get("modes", modes))
    rep.rule = (
        "grammars: r = m0{BODY}, s = m1{\"a\" ~ u}, u = m2{\"a\" ~ \"a\"?} + WHITESPACE/COMMENT per trivia configuration; BODY over operator terms to depth 2/3; "
        "inputs: all strings over {a, space, <, >} up to MaxLen; a case = (grammar, input); non-trivial = reference outcome is a successful parse"
    )
    rep.exhaustive = thorough
    rep.assumptions = ["PestSem.tla is the reading of pest's semantics (guarded by SpecVsSuite)"]
    return rep.finish()
