"""Code -> spec: record operations on real pest.stack.Stack objects during real parses and let TLC
validate them against SnapStack (spec/StackTrace.tla).

No source hook in /repo: the six Stack methods are wrapped at class level from the outside, only
while recording (guard: PEST_VERIF_TRACE, set by the harness for the duration of the recording).
Each event is logged after the call returned (and on the error path), with the visible contents.
"""

from __future__ import annotations

import json
import os
import random
from contextlib import contextmanager

from . import common as C
from . import modes as M

STACK_GRAMMARS = [
    # (grammar text, start rule, inputs)
    (
        'r = { PUSH("a" | "b")* ~ ((POP ~ "x")? ~ "y" | PEEK ~ "x" ~ POP | POP_ALL) }',
        "r",
        ["", "a", "ab", "aby", "abbxy", "abbxb", "aaxa", "abba", "abab", "ba", "bbx", "axy"],
    ),
    (
        'r = { PUSH_LITERAL("a") ~ ((POP ~ "x")? ~ "y" | "a" ~ "x" ~ POP) }',
        "r",
        ["aaxa", "axa", "y", "axy", "ax", ""],
    ),
    (
        'r = { (PUSH("a"+) ~ !(PEEK ~ PEEK) ~ &(DROP ~ "b"))* ~ PEEK_ALL? ~ (PUSH("b") ~ PEEK[0..1] | DROP ~ "c")* ~ PEEK[..]? }\nWHITESPACE = _{ " " }',
        "r",
        ["a b a", "aab", "a ba a", "abab", "aa aa b", "bc", "b a c", "a b  bab", ""],
    ),
    (
        'r = { s ~ (t ~ s)* ~ POP_ALL }\ns = ${ PUSH(ASCII_ALPHA) ~ (!PEEK ~ ANY)* ~ PEEK }\nt = @{ DROP? ~ "," }\nWHITESPACE = _{ " " }',
        "r",
        ["axxa", "axa,byb", "axa , byyb ba", "aa,b", "aba ,cdc a", "a"],
    ),
]


@contextmanager
def recording(pest, sink: list):
    from pest.stack import Stack  # noqa: PLC0415

    os.environ["PEST_VERIF_TRACE"] = "1"
    ids: dict[int, int] = {}
    vals: dict = {}
    keep: list = []  # keep stacks alive so id() is not reused

    def vid(v):
        k = v if isinstance(v, str) else ("obj", id(v))
        if k not in vals:
            vals[k] = len(vals) + 1
            keep.append(v)
        return vals[k]

    def view(s):
        return [vid(x) for x in s.items]

    def tid(s):
        if id(s) not in ids:
            ids[id(s)] = len(ids) + 1
            keep.append(s)
            sink.append({"t": ids[id(s)], "op": "new", "v": 0, "items": []})
        return ids[id(s)]

    orig = {}

    def wrap(name):
        f = getattr(Stack, name)
        orig[name] = f

        def w(self, *a):
            t = tid(self)
            try:
                r = f(self, *a)
            except IndexError:
                sink.append({"t": t, "op": name + "_err", "v": 0, "items": view(self)})
                raise
            sink.append({"t": t, "op": name, "v": vid(a[0]) if a else 0, "items": view(self)})
            return r

        setattr(Stack, name, w)

    for n in ("push", "pop", "clear", "snapshot", "restore", "drop_snapshot"):
        wrap(n)
    try:
        yield
    finally:
        for n, f in orig.items():
            setattr(Stack, n, f)
        os.environ.pop("PEST_VERIF_TRACE", None)


def record_parses(pest, thorough: bool) -> list[dict]:
    """Run real parses (all four modes) under the recorder; return per-object event lists, grouped."""
    events: list[dict] = []
    rnd = random.Random(C.SEED)
    jobs = []
    for g, rule, inputs in STACK_GRAMMARS:
        jobs.append((g, rule, inputs))
    for path, rule, inputs in [
        ("tests/grammars/lists.pest", "lists", ["- a", "- a\n- b", "- a\n  - b\n  - c", "- a\n  - b\n    - c\n- d", "- a\n  - b\n c", "- a\n\t- b\n\t\t- c\n\t- d\n- e"]),
        ("tests/grammars/surround.pest", "Quote", ["(abc)", "<a(b)>", "(abc>", "(", "<>"]),
    ]:
        jobs.append(((C.REPO / path).read_text(), rule, inputs))
    with recording(pest, events):
        for g, rule, inputs in jobs:
            for mode in M.MODES:
                parser, _ = M.build(pest, g, mode)
                ins = list(inputs)
                if thorough:
                    alphabet = sorted(set("".join(inputs))) or ["a"]
                    ins += ["".join(rnd.choice(alphabet) for _ in range(rnd.randint(0, 12))) for _ in range(40)]
                for text in ins:
                    M.run_parse(pest, parser, rule, text, 0)
    # group by object, keep order within object
    by: dict[int, list[dict]] = {}
    for e in events:
        by.setdefault(e["t"], []).append(e)
    out: list[dict] = []
    for t in sorted(by):
        out.extend(by[t])
    return out


def validate_events(events: list[dict], tag: str, chunk: int = 20000):
    """Validate events with TLC; returns (accepted: bool, consumed, total, stats list)."""
    d = C.OUT / "traces"
    d.mkdir(parents=True, exist_ok=True)
    # split at object boundaries
    chunks: list[list[dict]] = [[]]
    for e in events:
        if e["op"] == "new" and len(chunks[-1]) >= chunk:
            chunks.append([])
        chunks[-1].append(e)
    results = []
    for i, ch in enumerate(chunks):
        if not ch:
            continue
        f = d / f"{tag}_{i}.ndjson"
        with f.open("w") as fh:
            for e in ch:
                fh.write(json.dumps({"op": e["op"], "v": e["v"], "items": e["items"]}) + "\n")
        res = {}

        def on_line(line, res=res):
            pass

        st = C.run_tlc("StackTrace", C.SPEC / "StackTrace.cfg", workers=1, env={"TRACE_FILE": str(f)}, tag=f"StackTrace_{tag}_{i}")
        consumed = None
        for ln in st.tail:
            if "TRACE_RESULT" in ln:
                nums = [int(x) for x in ln.replace("<<", " ").replace(">>", " ").replace(",", " ").split() if x.lstrip("-").isdigit()]
                consumed, total = nums[0], nums[1]
        if consumed is None:
            raise C.MachineryError("StackTrace produced no verdict:\n" + "\n".join(st.tail[-40:]))
        results.append({"file": str(f), "consumed": consumed, "total": len(ch), "stats": st, "events": ch})
        if consumed == len(ch):
            f.unlink()
    return results


def validate_parse_traces(rep, pest, thorough: bool) -> None:
    events = record_parses(pest, thorough)
    if len(events) < 100:
        raise C.MachineryError("stack trace recorder captured almost nothing")
    results = validate_events(events, "c09")
    n_obj = sum(1 for e in events if e["op"] == "new")
    for r in results:
        rep.add_tlc(r["stats"], f"StackTrace ({r['total']} events)")
        if r["consumed"] != r["total"]:
            bad = r["events"][r["consumed"]] if r["consumed"] < r["total"] else None
            prev = r["events"][max(0, r["consumed"] - 6) : r["consumed"]]
            rep.violation(
                {"kind": "stack-trace", "trace_file": r["file"], "rejected_event_index": r["consumed"], "rejected_event": bad, "preceding": prev},
                f"Stack trace from a real parse is not a SnapStack behaviour: event {r['consumed']} {bad} after {[(p['op'], p['items']) for p in prev[-3:]]}",
            )
    rep.traces += n_obj
    rep.evaluations += len(events)
    rep.extra["stack_trace_events"] = len(events)
    rep.extra["stack_trace_objects"] = n_obj
    rep.sample({"stack_trace_excerpt": [(e["op"], e["v"], e["items"]) for e in events[40:52]]}, limit=12)


def selftest(pest) -> None:
    """Anti-vacuity: a corrupted event must be rejected."""
    events = record_parses(pest, False)[:3000]
    # corrupt: after some restore, alter the logged contents
    idx = next(i for i, e in enumerate(events) if e["op"] == "restore" and e["items"])
    bad = [dict(e) for e in events]
    bad[idx]["items"] = bad[idx]["items"][:-1]
    r = validate_events(bad, "selftest")[0]
    if r["consumed"] != idx:
        raise C.MachineryError(f"StackTrace accepted a corrupted trace (consumed {r['consumed']}, corrupted at {idx})")
