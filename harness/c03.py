"""C03 - core PEG operators follow pest's matching semantics.

TLC enumerates every core-operator grammar to a depth bound x every input to a length bound, evaluates the
reference semantics PestSem (checking the reference's own tree invariants on each case) and the outcomes are
replayed into the real library (unoptimized: interpreter and generated module).
"""

from __future__ import annotations

from . import common as C
from . import replay
from . import specvssuite


def run(tier: str) -> int:
    rep = C.Report("C03", tier)
    rep.distinct = None
    thorough = tier == "thorough"
    modes = ("interp", "gen")
    specvssuite.run(rep, max_len=6000 if thorough else 700)  # the oracle itself must accept what the repository's suite blesses
    if not thorough:
        fams = [
            {"Family": "core2", "MaxLen": 4, "Starts": "zero", "Sample": 0, "workers": 4},
            {"Family": "core3", "MaxLen": 4, "Starts": "zero", "Sample": 600, "workers": 4},
        ]
    else:
        fams = [
            {"Family": "core2", "MaxLen": 5, "Starts": "zero", "Sample": 0, "workers": 8},
            {"Family": "core3", "MaxLen": 4, "Starts": "zero", "Sample": 0, "workers": 12},
        ]
    # choices of literals / ranges in every order, also through the optimizer (ordered choice must survive squashing)
    fams.append({"Family": "optsq", "MaxLen": 3 if not thorough else 4, "Starts": "zero", "Sample": 250 if not thorough else 0, "workers": 3 if not thorough else 8, "style": "min", "modes": ("interp", "gen", "opt", "optgen")})
    # case-insensitive literals fold ASCII letters only: inputs with KELVIN SIGN, LONG S, sharp s next to k, K, s, S
    fams.append({"Family": "ci", "MaxLen": 3, "Starts": "zero", "Sample": 300 if not thorough else 0, "workers": 3 if not thorough else 8, "style": "min", "modes": ("interp", "gen", "opt", "optgen")})
    # every bounded repetition with small bounds, degenerate ones included (e{0}, e{,0}, e{0,n}, e{n,n})
    fams.append({"Family": "bounds", "MaxLen": 4, "Starts": "zero", "Sample": 300 if not thorough else 0, "workers": 3 if not thorough else 8, "modes": ("interp", "gen", "opt", "optgen")})
    four = ("interp", "gen", "opt", "optgen")
    # the skip idiom (overlapping terminators, every order), look-alike literals, and one choice used both as WHITESPACE and as an alternative
    fams.append({"Family": "optsk", "MaxLen": 4, "Starts": "zero", "Sample": 200 if not thorough else 0, "workers": 3 if not thorough else 8, "style": "min", "modes": four})
    fams.append({"Family": "sqesc", "MaxLen": 3, "Starts": "zero", "Sample": 250 if not thorough else 0, "workers": 3 if not thorough else 8, "style": "min", "modes": four})
    fams.append({"Family": "sqcls", "MaxLen": 3 if not thorough else 4, "Starts": "zero", "Sample": 300 if not thorough else 0, "workers": 3 if not thorough else 8, "style": "min", "modes": four})
    fams.append({"Family": "sqws", "MaxLen": 4, "Starts": "zero", "Sample": 0, "workers": 3 if not thorough else 8, "style": "min", "modes": four})
    for f in fams:
        replay.run_family(rep, f, "sem", f.get("modes", modes))
    rep.rule = (
        "grammars: all core-operator terms to depth 2 (core2) / 3 (core3) over atoms {\"a\",\"b\",\"ab\",^\"a\",'a'..'b',ANY,ASCII_ALPHA_UPPER,SOI,EOI,s,t} "
        "with helper rules s (normal/silent) and recursive t; inputs: all strings over {a,b,A} up to MaxLen; a case = (grammar, input); "
        "non-trivial = the reference outcome is a successful parse (failures are replayed too)"
    )
    rep.exhaustive = thorough
    rep.assumptions = ["PestSem.tla is the reading of pest's semantics (guarded by SpecVsSuite)", "front-end round trip guard: printed grammar is rebuilt to the intended AST"]
    return rep.finish()
