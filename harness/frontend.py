"""C10 / C11 shared machinery: text sources, front-end observation, comparison with the meta-grammar recogniser (TLC)."""

from __future__ import annotations

import multiprocessing as mp
import random
import re
import sys
from contextlib import contextmanager

from . import common as C
from . import gast
from . import metasyntax as MS
from . import modes as M
from . import replay
from . import sentences as S

PEST_FILES = [
    "tests/grammars/grammar.pest", "tests/grammars/http.pest", "tests/grammars/json.pest", "tests/grammars/lists.pest", "tests/grammars/meta.pest",
    "tests/grammars/reporting.pest", "tests/grammars/sql.pest", "tests/grammars/surround.pest", "tests/grammars/toml.pest",
    "examples/calculator/calculator.pest", "examples/calculator/grammar_encoded_prec.pest", "examples/csv/csv.pest", "examples/ini/ini.pest",
    "examples/json/json.pest", "examples/jsonpath/jsonpath.pest",
]

HAND = [
    # digits are '0'..'9': decimal digits of other scripts are not numbers
    'r = { "a"{\u0663} }', 'r = { "a"{1,\uff12} }', 'r = { PUSH("a") ~ PEEK[-1\u0660..] }', 'r = { "a"{\u0967,} ~ PEEK[..\u0e53] }', 'r = { "a"{1\u0663} }',
    # numbers may carry leading zeros (number = @{ '0'..'9'+ }): the value counts, not the length of the spelling
    'r = { "x"{00000000002} }', 'r = { "x"{, 000000000003} ~ "y"{0000000000001,00000000000000000002} }', 'r = { "x"{000000000000000000000000001,} }',
    'r = { PUSH("a") ~ PEEK[00000000001..] }', 'r = { PUSH("a") ~ PEEK[..-000000000001] ~ PEEK[-00000000000002..000000000000003] }', 'r = { "x"{00} ~ "y"{,000} }',
    # tag names have no reserved words (only identifiers exclude a PUSH prefix); raw CR / CR LF inside literals are characters of the literal
    "r = { #PUSH = a }", "r = { #PUSHED = a ~ #PUSH_more = (a | b) }", "r = { #POP = a ~ #PEEK_ALL = a ~ #DROP = a ~ #ANY = a ~ #EOI = a }", "r = { #PUSH_LITERAL = a }", "PUSHED = { a }", "r = { PUSHED }",
    'r = { "a\r\nb" }', 'r = { ^"\r\n" ~ "\r" }', 'r = { PUSH_LITERAL("\r\n") }', "r = { '\r'..'\n' }", "r = { '\r\n'..'~' }", 'r = { "x\ry" | "\n\r" }', "r = { 'a'..'\r' }",
    # a leading choice operator is allowed at the start of EVERY expression: rule body, group, PUSH( ), and nowhere else
    'r = { PUSH( | "a" | "b") }', 'r = { PUSH(|"a") ~ (| "b") }', 'r = { ( | "a" | "b")* }', 'r = { !( | "a") ~ &(|"b" | "c") }', 'r = { PUSH( | PUSH( | "a")) }', 'r = { #t = ( | "a") }',
    'r = { PUSH( || "a") }', 'r = { "a" ~ | "b" }', 'r = { ("a" | | "b") }', 'r = { PUSH("a" | ) }', 'r = { ! | "a" }', 'r = { | }', 'r = { PUSH( | ) }', 'r = { "a" | ( | ) }',
    "", " ", "\n", "// c", "/* c */", "/* /* n */ */", "//! doc", "//! doc\n", "/// doc", "/// doc\nr = { a }", "r = { a } /// trailing", "r = { a }\n/// d\n/// e\n",
    "r = { a*? }", "r = { a * }", "r = { a {2} }", "r = { &!a }", "r = { !&a }", "r = { #t = !a* }", "r = { #t = a }", "r = { #_ = a }", "r = { #tag /*c*/ = a }",
    "r = { PEEK [..] }", "r = { PEEK[ -1 .. ] }", "r = { PEEK[-0..] }", "r = { PEEK[1xx2] }", "r = { PEEK[1...2] }", "r = { ^ \"abc\" }", "r = { ^\n\"abc\" }",
    "r = { 'a'--'b' }", "r = { 'a'..'b' }", "r = { 'a' .. 'b' }", "r = { '\\n'..'\\r' }", "r = { '\\''..'\\\"' }", "r = { '''..'a' }", "r = { '\\'..'a' }", "r = { 'ab'..'c' }",
    "r = { \"\\x41B\" }", "r = { \"\\x4\" }", "r = { \"\\xZZ\" }", "r = { \"\\0\" }", "r = { \"\\'\" }", "r = { \"\\u{1F600}\" }", "r = { \"\\u{110000}\" }", "r = { \"\\u{1}\" }", "r = { \"\\u{1234567}\" }",
    "r = { \"\\q\" }", "r = { \"a", "r = { \"a\\", "r = { \"\\u{12", "r = { /* c", "r = {", "r = ", "r", "r = { a", "r = { a ~ }", "r = { | a }", "r = { a | | b }", "r = { (a }", "r = { a) }",
    "POPULATION = { DROPPED ~ PEEKABOO ~ PEEK_ALLX ~ POP_ALL_ }", "PUSHER = { a }", "r = { PUSHER }", "r = { PUSH_LITERALX(\"a\") }", "r = { PUSH (a) }", "r = { PUSH_LITERAL ( \"a\" ) }", "r = { PUSH_LITERAL(a) }",
    "r = _{ a }", "r = @{ a }", "r = ${ a }", "r = !{ a }", "r = _@{ a }", "r = %{ a }", "r = { a }{ b }", "r = { a } s = { b }", "r={a}s={b}", "r = { a }\rs = { b }", "r = { a\r~ b }",
    "r = { a{1,2} }", "r = { a{ 1 , 2 } }", "r = { a{,} }", "r = { a{} }", "r = { a{1,2,3} }", "r = { a{-1} }", "r = { a{1 2} }", "r = { a{01} }",
    "r = { \"\n\" }", "r = { '\n'..'a' }", "r = { a } //! late doc", "//! a\n//! b\n\nr = { a }", "/// d\n//! g\nr = { a }", "r = { a /// x\n }", "r = { a // x\n }", "r = { a //! x\n }",
    "r = { undefined }", "ANY = { \"a\" }", "r = { a }\nr = { b }", "é = { a }", "r = { \"é😀\" }", "r = { 'é'..'😀' }", "r1_ = { _a1 }", "1r = { a }", "r = { 1 }", "_ = { a }",
    "a = { (!b ~ ANY)* }\nb = { \"x\" | b2 }\nb2 = { b }", "a = { (!b ~ ANY)* }\nb = { b }", "r = { (!r ~ ANY)* }", "a = { a }", "a = { a ~ \"x\" | \"y\" }", "a = _{ b }\nb = _{ a }",
    "a = _{ b ~ \"x\" }\nb = _{ a | \"y\" }\nr = { a }", "r = { \"a\" | \"\" }", "r = { (\"a\" | \"\")* }", "r = { \"\"+ }", "WHITESPACE = _{ WHITESPACE }", "COMMENT = _{ r }\nr = { COMMENT }",
    "r = { ^\"\" | \"ab\" | 'a'..'a' }", "r = { PUSH(\"\") ~ PEEK* }", "r = { (\"a\"){0} }", "r = { \"a\"{300} }", "r = { \"a\"{2,1} }",
    "r = { 'z'..'a' }", "r = { \"\" }", "r = { ^\"\" }", "r = { PUSH(\"\") }", "r = { () }", "r = { }", "r = { ~ }", "r = { a ~ (b | c)+ ~ !d? }", "r = {a~b|c~d}",
]

_pest = None


def _init():
    global _pest  # noqa: PLW0603
    C.die_with_parent()
    _pest = C.import_pest()


@contextmanager
def default_recursion_limit():
    """./check raises the recursion limit for its own needs; the library is observed under CPython's default."""
    old = sys.getrecursionlimit()
    sys.setrecursionlimit(1000)
    try:
        yield
    finally:
        sys.setrecursionlimit(old)


def observe_load(text: str) -> dict:
    """Load `text` with optimizer=None and with the default optimizer; total."""
    out = {}
    for key, opt in (("none", None), ("default", "default"), ("debug", "debug")):
        try:
            with M.watchdog(20), default_recursion_limit():
                p = _pest.Parser.from_grammar(text, optimizer=M.optimizer_for(_pest) if opt else None, debug=opt == "debug")
            o = {"class": "parser"}
            if key == "none":
                try:
                    o["rules"] = gast.export_rules(p, _pest)
                    o["docs"] = list(p.doc or [])
                    o["rule_docs"] = {n: list(r.doc or []) for n, r in p.rules.items() if n in o["rules"]}
                    o["order"] = [n for n in p.rules if n in o["rules"]]
                except Exception as e:  # noqa: BLE001
                    o["export_error"] = f"{type(e).__name__}: {e}"
        except _pest.PestGrammarError as e:
            o = {"class": "grammar_error", "type": type(e).__name__}
            try:
                msg = str(e)
                o["message"] = msg[:400]
                m = re.search(r" -> (-?\d+):(-?\d+)", msg)
                if m:
                    o["line"], o["col"] = int(m[1]), int(m[2])
            except Exception as e2:  # noqa: BLE001
                o["render_error"] = f"{type(e2).__name__}: {e2}"[:200]
        except M.Timeout:
            o = {"class": "timeout"}
        except RecursionError:
            o = {"class": "other", "type": "RecursionError"}
        except Exception as e:  # noqa: BLE001
            o = {"class": "other", "type": type(e).__name__, "message": str(e)[:200]}
        out[key] = o
    return out


def observe_many(texts):
    return [observe_load(t) for t in texts]


def observe_many_default_limits(texts):
    """As observe_many, under CPython's default recursion limit (./check raises it for its own needs; users do not)."""
    import sys  # noqa: PLC0415

    import resource  # noqa: PLC0415

    # a count that is not rejected would be unrolled eagerly: keep a runaway allocation from taking the machine down
    # (it then ends in MemoryError, which is reported as the violation it is)
    resource.setrlimit(resource.RLIMIT_AS, (12 << 30, 12 << 30))
    old = sys.getrecursionlimit()
    sys.setrecursionlimit(1000)
    try:
        return [observe_load(t) for t in texts]
    finally:
        sys.setrecursionlimit(old)


EAGER_UNROLL_TEXTS = ['r = { "x"{4294967295} }', 'r = { "x"{,4294967295} }', 'r = { "x"{4294967295,} }', 'r = { "x"{1,4294967295} }']


def stress_texts() -> list[str]:
    """Long chains, deep nesting, huge numbers, lone surrogates: legal or illegal, loading must stay total (C11)."""
    out = []
    for n in (200, 600, 1500):
        out.append("a = { " + " | ".join(f'"k{i}"' for i in range(n)) + " }")
        out.append("a = { " + " ~ ".join(f'"k{i}"' for i in range(n)) + " }")
        out.append("a = { " + " | ".join(f'"k{i}" ~ b' for i in range(n)) + ' }\nb = { "x" }')
        out.append("a = { " + " ~ ".join(f'("k{i}" | b)' for i in range(n)) + ' }\nb = { "x" }')
        out.append("\n".join(f'r{i} = {{ "k{i}" }}' for i in range(n)))
    for d in (100, 400, 1200):
        out.append("a = { " + "(" * d + '"x"' + ")" * d + " }")
        out.append("a = { " + "!" * d + '"x" }')
        out.append("a = { " + "&!" * (d // 2) + '"x" }')
        out.append("a = { " + "PUSH(" * d + '"x"' + ")" * d + " }")
        out.append('a = { "x"' + "*" * d + " }")
        out.append('a = { "x"' + "?" * d + " }")
        out.append('a = { "x"' + "{1}" * d + " }")
        out.append("a = { " + '("x" ~ ' * d + '"y"' + ")" * d + " }")
        out.append("a = { " + "(" * d + '"x"')  # unterminated
        out.append("/*" * d + "*/" * d + ' a = { "x" }')
    big = ["4294967296", "99999999999", "9" * 23, "1" * 4301, "0" * 30 + "2", "0" * 4400 + "1"]
    for b in big:
        for form in ('"a"{%s}', '"a"{%s,}', '"a"{,%s}', '"a"{1,%s}', '"a"{%s,%s}', "PEEK[%s..]", "PEEK[..%s]", "PEEK[-%s..]", "PEEK[..-%s]"):
            out.append("r = { " + form.replace("%s", b) + " }")
    out.extend(EAGER_UNROLL_TEXTS)  # legal counts (u32) that cannot be unrolled in memory: recorded finding eager-unroll-memory
    sur = "\ud800"
    for body in ('"%s"', '"\\x%sa"', '"\\u{%s41}"', "'%s'..'z'", '^"%s"', 'PUSH_LITERAL("%s")', "%s", '"a" ~ %s', "#%s = a", '"a" // %s', '"a" /* %s */', '"a"{%s}', "PEEK[%s..]"):
        out.append("r = { " + body.replace("%s", sur) + " }")
    out.append(f"r{sur} = {{ \"a\" }}")
    out.append(f"//! {sur}\nr = {{ \"a\" }}")
    out.append(f"/// {sur}\nr = {{ \"a\" }}")
    return out


def gather_texts(tier: str, rep: C.Report) -> tuple[list[str], dict]:
    thorough = tier == "thorough"
    rnd = random.Random(C.SEED)
    texts: list[str] = []
    src: dict[str, int] = {}

    def add(kind, ts):
        src[kind] = src.get(kind, 0) + len(ts)
        texts.extend(ts)

    add("hand", HAND)
    files = [(C.REPO / f).read_text(encoding="utf-8") for f in PEST_FILES]
    add("bundled", files)
    # sentences rendered from TLC-enumerated grammar ASTs
    fams = [("core3", 60), ("mods", 30), ("stack", 50), ("tags", 50), ("optinl", 30), ("optsk", 20)] if not thorough else [("core3", 900), ("mods", 300), ("stack", 700), ("tags", 400), ("optinl", 300), ("optsk", 300), ("trivia3", 300)]
    rend = S.Renderer(rnd)
    n_sent = 0
    for fam, n in fams:
        for g in replay.enumerate_grammars(rep, fam, n):
            for _ in range(2):
                text, toks = rend.render(g)
                texts.append(text)
                n_sent += 1
                add("token-mutations", S.mutate_tokens(rnd, toks, 2 if not thorough else 4, rend.join))
                add("char-mutations", S.mutate_chars(rnd, text, 2 if not thorough else 4))
    src["sentences"] = n_sent
    # literal soups: string / insensitive / range / PUSH_LITERAL literals over the characters that matter to the unescaper
    soup = S.literal_soup(rnd, 150 if not thorough else 1500)
    add("literal-soup", soup)
    # malformed and boundary escapes, exhaustively for short payloads
    add("escape-probes", S.escape_probes(rnd, thorough))
    for f in files:
        add("char-mutations", S.mutate_chars(rnd, f, 6 if not thorough else 40))
    for h in HAND:
        add("char-mutations", S.mutate_chars(rnd, h, 1 if not thorough else 4))
    # prefixes of valid sentences: texts ending inside a string, escape, comment or rule
    base = [t for t in texts[len(HAND) + len(files) : len(HAND) + len(files) + (40 if not thorough else 400)]]
    for t in base:
        cuts = sorted({rnd.randrange(len(t) + 1) for _ in range(4 if not thorough else 10)}) if t else []
        add("prefixes", [t[:c] for c in cuts])
    # long flat chains (keyword lists): valid pest, must load under the default recursion limit
    add("long-chains", ["a = { " + " | ".join(f'"k{i}"' for i in range(600)) + " }", "a = { " + " ~ ".join(f'"k{i}"' for i in range(600)) + " }",
                        "a = { " + " | ".join(f'"k{i}" ~ b' for i in range(300)) + ' }\nb = { "x" }'])
    seen, uniq = set(), []
    for t in texts:
        if t not in seen:
            seen.add(t)
            uniq.append(t)
    return uniq, src
