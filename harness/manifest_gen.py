"""Generates MANIFEST.json from the table below (single source of truth)."""

from __future__ import annotations

import json
from pathlib import Path

VERIF = Path(__file__).resolve().parent.parent

CHECKS: dict[str, dict] = {}


def check(pid, technique, text, note, design_ref, category="model_checking"):
    CHECKS[pid] = {
        "property_id": pid,
        "quick_cmd": f"./check {pid} --tier quick",
        "thorough_cmd": f"./check {pid} --tier thorough",
        "evidence_file": f"evidence/{pid}.json",
        "replay_cmd_template": "./check replay {path}",
        "engine": "check",
        "level_claimed": {"category": category, "text": text, "design_ref": design_ref},
        "level_note": note,
        "technique": technique,
    }


check(
    "C09",
    "TLA+ refinement (DeltaStack => SnapStack) checked by TLC; TLC-enumerated operation histories replayed into the real Stack/SnapshottingInt/ParserState; Stack traces of real parses validated by TLC against SnapStack",
    "TLC checks that the delta encoding of stack.py (transcribed as DeltaStack.tla) refines a full-copy reference (SnapStack.tla); "
    "every operation history up to the length bound is enumerated by TLC from the reference models and stepped through the real "
    "objects with the visible state compared after each step (exhaustive within the bound), long random behaviours come from TLC "
    "-simulate, and the Stack operations of real parses are recorded and validated by TLC as SnapStack behaviours.",
    "Trusted: TLC/SANY, CommunityModules Json, CPython. pop/ok/restore on an empty container raise by contract and are outside the histories. Bounded: Stack histories <= 7 (quick) / 8 (thorough) operations.",
    "DESIGN.md 2.4, 5 (C09)",
)

REPLAY_NOTE = (
    "Trusted: TLC/SANY, CommunityModules (Json, SequencesExt, Randomization), CPython, the regex library; the harness's grammar printer/exporter "
    "(guarded: a printed grammar whose rebuilt AST differs from the intended one is skipped and counted, and the run fails as machinery error above 20%). "
    "Bounded: families and input lengths as recorded in the evidence; quick tiers sample the larger families with TLC's seeded RandomSubset."
)

check(
    "C01",
    "TLC-enumerated grammar families (spec/Families.tla) with reference outcomes from PestSem.tla replayed into the library; interpreter vs exec(generate()) compared on the same Parser, optimizer off and on",
    "Relational conformance: TLC enumerates every grammar of the bounded families (each expression kind in each nesting context, trivia configurations, modifier chains, stack operations in backtracking "
    "contexts, tags) and every input/start position; for each case the same Parser is run interpreted and through the generated module and trees (with tags) or furthest-failure positions must be equal; "
    "generate() twice / on an equal Parser must be byte-identical and must compile, also for ill-formed grammars.",
    REPLAY_NOTE + " The oracle for C01 is the interpreter itself (the statement is relational); PestSem's outcome is attached for diagnosis.",
    "DESIGN.md 3.1, 5 (C01)",
)
check(
    "C02",
    "TLC-enumerated grammar families aimed at each optimizer pass, replayed under many pass configurations against optimizer=None, interpreted and generated",
    "Relational conformance over TLC-enumerated families targeted at squash_choice, skip, unroll, both inliners and the fused SKIP rule (plus the general families), for the default pipeline, every single pass, "
    "ordered pairs, permutations and repetitions of the exported passes; success/failure and tree (with tags) must equal those of the unoptimized parser, for interpreted and generated optimized rules.",
    REPLAY_NOTE,
    "DESIGN.md 2.5, 5 (C02)",
)
check(
    "C03",
    "PestSem.tla (reference PEG semantics, TLC-checked tree invariants) evaluated by TLC on every grammar x input of the core families; outcomes replayed into interpreter and generated module",
    "TLC evaluates the explicit TLA+ reference semantics (ordered choice, greedy repetition, bounded repetitions as unrolled sequences, predicates, silent/normal rules, recursion) on all core-operator grammars "
    "to depth 2 (and depth 3, sampled in quick / exhaustive in thorough) x all inputs to the length bound, checks the reference's own invariants (TreeWF, SingleRoot) on each case, and the implementation must "
    "return exactly the reference outcome (success/failure, pairs, spans).",
    REPLAY_NOTE + " PestSem is the reading of pest's semantics pinned by the property statements; it is guarded by validating the repository's own pest-derived suite outcomes against it (SpecVsSuite).",
    "DESIGN.md 2.2, 5 (C03)",
)
check(
    "C04",
    "PestSem.tla evaluated by TLC on trivia/modifier families (silent and non-silent WHITESPACE/COMMENT, multi-element bodies, every modifier triple) x inputs with trivia at every place; replayed into the library",
    "TLC evaluates the reference semantics on operator terms x seven trivia configurations and on every triple of rule modifiers over a three-rule chain x spanning bodies, for all inputs over {a, space, <, >} "
    "to the bound (leading/between/trailing/doubled trivia, unterminated comment); spans and inner pairs returned by interpreter and generated module must equal the reference.",
    REPLAY_NOTE,
    "DESIGN.md 2.2, 5 (C04)",
)
check(
    "C05",
    "PestSem.tla (by-value backtracking) evaluated by TLC on the stack family (each stack terminal in each backtracking context, followed by a stack-dependent probe); replayed into the library; every ParserState constructed during real parses recorded (checkpoint/ok/restore with the state before and after) and validated by TLC against the checkpoint discipline (StateTrace.tla)",
    "TLC evaluates the reference semantics, in which a failed branch simply returns the caller's state, on r = {SETUP ~ MID ~ PROBE} for every stack terminal (alone and in two-element sequences) in 13 backtracking "
    "contexts x 3 setups x 4 probes x all inputs to the bound; interpreter and generated module must return the reference outcome and never raise. Code->spec: the checkpoint/ok/restore calls of real parses "
    "(stack grammars, bundled grammars, sampled family grammars; four modes) are recorded with position, user stack and depths before and after, and TLC validates each parse as a behaviour of StateTrace.tla: checkpoint and ok leave the "
    "state unchanged, restore returns exactly to the innermost open checkpoint, and no checkpoint is open when the parse returns or raises. "
    "PestVM.tla models the interpreter as a small-step machine (frames, children buffers, the checkpoint protocol, fail()): TLC checks that it computes the reference outcome (Refines) and keeps Balanced / Discipline / "
    "RestoreExact / FurthestInRange on the stack, trivia and modifier families; its checkpoint events and furthest-failure position are compared case by case with the real interpreter and generated parser (agreement is evidence, drift is a note, never a verdict).",
    REPLAY_NOTE + " PEEK[a..b] with indices outside the stack is outside the domain (pest fails, Python clamps; no statement pins it).",
    "DESIGN.md 2.2, 5 (C05)",
)
check(
    "C07",
    "Outcome classification over the TLC-enumerated well-formed families in four execution modes, every call repeated",
    "Every case of the bounded well-formed families (including empty input, empty stack and inputs ending mid-construct) is run twice in each of the four execution modes; the outcome must be Pairs or "
    "PestParsingError (no other exception, no timeout) and the two calls must agree.",
    REPLAY_NOTE,
    "DESIGN.md 5 (C07)",
)
check(
    "C16",
    "RefShift invariant checked by TLC on PestSem for every enumerated case; relational replay start_pos=k vs suffix (shifted) and vs a different prefix, four modes",
    "TLC checks on the reference semantics that the outcome at start k equals the outcome on the suffix shifted by k for every SOI-free enumerated grammar/text/k; the library is then run at start_pos=k, "
    "on text[k:], and behind a different prefix of equal length, in four modes, and trees and failure positions must coincide after shifting.",
    REPLAY_NOTE,
    "DESIGN.md 5 (C16)",
)

check(
    "C06",
    "TokenStream.tla pushdown monitor (TLC-checked equivalent to the tree invariant on all small forests); token streams of real parse results validated by TLC (TokenTrace.tla); API-consistency clauses asserted on the same objects",
    "Trace validation: tokens() of every successful parse (TLC-enumerated families x four modes x all start positions; bundled JSON/TOML/SQL/HTTP/JSONPath/calculator/lists/INI/CSV and suite grammars on corpus and "
    "mutated inputs) is validated by TLC against the TokenStream monitor, which TLC separately shows accepts Tokens(f) exactly when f satisfies the tree invariant; text/names/tags/flatten/single-root/dump clauses are "
    "asserted by the harness on the same Pairs objects.",
    REPLAY_NOTE,
    "DESIGN.md 2.8, 5 (C06)",
)
check(
    "C13",
    "Failing cases of TLC-enumerated families and bundled grammars in four modes; bounds, names and rendering asserted; shown line:column and source line validated by TLC against LineCol.tla (ErrTrace.tla)",
    "Every failing parse of the enumerated families (including a multi-line family: failure at offset 0, at the end, on an empty line, after a trailing line break, inside predicates) and of the bundled grammars on "
    "mutated, multi-line and non-ASCII inputs is checked for start <= p <= len or the sentinel, rule names that are rules of the grammar as written or built-ins (not the optimizer's synthetic rules), and rendering; each distinct rendered (input, position, line:col, source line) is validated by TLC "
    "against the LineCol specification.",
    REPLAY_NOTE,
    "DESIGN.md 5 (C13)",
)
check(
    "C14",
    "LineCol.tla (TLC: bijection offsets <-> line/column, inverse, step characterisation) with the table for every text to the bound replayed into Position/Span/Pair; long non-ASCII texts validated as traces by TLC (LineColTrace.tla)",
    "Exhaustive within the bound: TLC enumerates all texts over {a, b, newline} to length 6 (quick) / 8 (thorough), checks that line/column and offsets determine each other, and emits LineCol/LineStart/LineEnd for every "
    "offset; the harness compares line_col(), line_of(), Span.start_pos/end_pos/split/lines/str and Pair.line_col()/span() on all offsets and spans, with the two ordinary symbols instantiated as letters, as "
    "characters other conventions treat as line boundaries (\\r, \\x0c, \\x85, U+2028, ...) and as astral / combining characters; seeded long and non-ASCII texts are logged offset by offset and "
    "validated by TLC against the line/column counter machine.",
    "Trusted: TLC, CPython. Texts use \\n as the only line break. Span.lines(): inclusive or exclusive end offset and omission of the empty line after a final break are all accepted (no statement pins them).",
    "DESIGN.md 2.8, 5 (C14)",
)
check(
    "C18",
    "OpExpr.tla: declarative denoted tree (TLC checks uniqueness) and the Pratt loop transcribed (TLC checks it builds the denoted tree); every (table, stream, tree) instance replayed into a real PrattParser",
    "Exhaustive within the bound: all operator tables (1-2 infix operators with each associativity, 0-2 prefix, 0-2 postfix, precedences 1..4) x all well-formed streams to 6 (quick) / 7 (thorough) tokens; TLC checks that "
    "exactly one tree without precedence inversion exists and that the transcribed parse_expr builds it; the real PrattParser, fed synthetic Pairs, must build the same tree and consume the stream.",
    "Trusted: TLC, CPython. Tables are well-formed (a precedence level belongs to one fixity; equal-precedence infix operators share associativity).",
    "DESIGN.md 2.9, 5 (C18)",
)

check(
    "C10",
    "pest's meta-grammar as a PestAst constant interpreted by PestSem in TLC (MetaTrace.tla / MetaShort.tla) = recogniser and source of the denoted structure; grammar texts loaded by the front end validated against it",
    "Trace validation against the specification: every grammar text (hand-written probes, the bundled .pest files, sentences rendered from TLC-enumerated ASTs with seeded trivia/parenthesis/escape variation, token and "
    "character mutations, prefixes, and every string over the grammar alphabet up to length 3/4 enumerated by TLC) gets its verdict from TLC running the reference semantics on the repository's copy of pest's meta-grammar; "
    "the front end must accept exactly the valid ones and build the structure that the recogniser's parse tree denotes (names, modifiers, docs, operator structure, bounds, slices, decoded literals, tags per rule). "
    "A vacuity guard fails the run if a meta-grammar production is never exercised by a valid text.",
    "Trusted: TLC, PestSem (itself validated by C03/C04 and SpecVsSuite), the fold from parse tree to structure (Python, guarded by the bundled grammars round-tripping), spec/MetaGrammar.json (reviewed against the file; "
    "re-checked against the front end's reading each run). Out of domain: rules shadowing built-ins, duplicate names, escapes above U+10FFFF/surrogates, tags on literals.",
    "DESIGN.md 2.6, 5 (C10)",
)
check(
    "C11",
    "Exhaustive enumeration of all short strings over the grammar alphabet (TLC MetaShort.tla, plus one length further by the harness) and the C10 text streams, each loaded with and without the optimizer; outcome classification and position bounds",
    "Exhaustive within the bound: every string over the 25-symbol grammar alphabet up to length 3 (quick) / 4 (thorough) is enumerated by TLC with the recogniser's verdict, and of length 4 / 5 by the harness; together with "
    "truncations, mutations and prefixes of valid grammars, and stress texts (chains of 200-1500 operands, nesting 100-1200 deep, numbers beyond 32 bits and beyond Python's int conversion limit, lone surrogates; loaded "
    "under CPython's default recursion limit) each text is loaded under a watchdog with optimizer=None, the default optimizer and debug=True; the outcome must be a Parser or a PestGrammarError whose str() renders and whose "
    "line:column lies within the text.",
    "Trusted: TLC, CPython. Both column conventions accepted; an error without a position is allowed ('normally PestGrammarSyntaxError').",
    "DESIGN.md 5 (C11)",
)
check(
    "C12",
    "CharSets.tla (interval-list denotations; optimizer class merge transcribed and TLC-checked) and Escapes.tla; TLC-emitted denotations compared with a sweep of all 1,114,112 code points through the public API in four modes",
    "TLC checks the character-class merge denotes exactly the union of its parts on every small family of ranges/singles and emits the denotation of every probe terminal (ASCII_* classes, ANY, boundary ranges, single "
    "characters incl. regex metacharacters, insensitive ASCII letters, mixed choices the optimizer merges, reversed ranges); the harness sweeps code points through probe grammars in four modes and compares hit sets with the "
    "interval lists (thorough: all code points for every terminal and mode; quick: full sweeps for built-ins and a seeded part of the family in two modes, a reduced set elsewhere); Unicode property rules are compared "
    "between the four modes; every TLC-emitted (escape, code point) case is observed through loaded string and range literals.",
    "Trusted: TLC, CPython, the regex library's Unicode data (property rules have no TLA+ denotation: four-mode agreement only). Insensitive literals swept over ASCII input only, as the statement says.",
    "DESIGN.md 2.7, 5 (C12)",
)

check(
    "C08",
    "Rewrites.tla: the six rewrites as TLA+ functions at any site; TLC checks RewriteNeutral on PestSem (every site x kind x input on sampled families); the same functions applied by TLC to the bundled grammars' exported ASTs, original vs rewritten replayed on corpora in four modes",
    "TLC establishes that each rewrite at every site preserves the reference outcome (trees and success/failure) on sampled grammars of the core, trivia, modifier, stack and tag families, then enumerates the sites of the eleven "
    "bundled grammars' exported ASTs and applies seeded (site, kind) singles and pairs with the same functions; the harness prints each rewritten grammar and requires the real library to return the same tree (tags included) or to "
    "fail, as for the original, on corpus files, suite inputs and mutations, in four modes.",
    REPLAY_NOTE + " NEVER is the literal U+10FFFD. Failure positions are not compared.",
    "DESIGN.md 2.5, 5 (C08)",
)
check(
    "C15",
    "Isolation.tla enumerates creation/generation/parse histories, Reentrancy.tla models and enumerates thread schedules; histories replayed in pristine forked processes, schedules by a deterministic line-level scheduler; every logged (key, result) validated by TLC as functional in the key (IsolationTrace.tla)",
    "Every history of Create(g, opt)/Generate/Parse(ok|fail) up to length 3 (quick) / 4 (thorough) over three grammars sharing built-ins, lazy caches and a fused SKIP rule x three optimizer settings is replayed in a pristine forked "
    "process (once with parsers loaded from the text, once with parsers built by the constructor from ONE shared rule mapping), followed by every case on every live object; every schedule with at most two preemptions on a step lattice (TLC-enumerated from Reentrancy.tla, which also checks the design property) is replayed on shared interpreted "
    "and generated parsers by a settrace-based scheduler, plus concurrent parser creation and uncontrolled stress; TLC validates that the complete log of (grammar, optimizer, interpreted/generated, case) -> digest(tree | failure "
    "position + expected/unexpected sets + rule stack + message) is a function.",
    "Trusted: TLC, CPython's fork and settrace. Line-level interleavings only (not inside a single bytecode line or the regex C extension).",
    "DESIGN.md 2.10, 5 (C15)",
)
check(
    "C17",
    "JsonDoc.tla pushdown generator (all document shapes to a bound) and CalcExpr.tla (all operator streams over the documented table with their denoted trees, uniqueness TLC-checked); documents vs json.loads, expressions vs the value of the denoted tree, three calculators",
    "TLC enumerates every RFC 8259 document shape up to 9 (quick) / 10 (thorough) tokens with lexeme lists covering every number production and string escape, and every well-formed calculator operator stream up to 7 / 9 "
    "tokens with the tree it denotes under the documented precedence table; each instantiated document must be accepted by both bundled JSON grammars in four modes with a tree that mirrors json.loads and the generator's skeleton, "
    "every proper prefix must be rejected, and all three bundled calculators (imported from a scratch copy whose parsers are regenerated from the current tree) must return the value of the denoted tree or raise where it is undefined.",
    "Trusted: TLC, json.loads (the oracle the statement names), CPython arithmetic. Generation and denotation by TLC; value comparison by the harness.",
    "DESIGN.md 2.9, 5 (C17)",
)

NOT_YET = {
}


def main():
    props = [json.loads(l)["id"] for l in (VERIF / "properties.jsonl").read_text().splitlines() if l.strip()]
    na = []
    for p in props:
        if p not in CHECKS:
            na.append({"property_id": p, "reason": NOT_YET.get(p, "check not built yet in this round; no claim is made (see DESIGN.md section 7 for the construction order)")})
    m = {
        "version": 1,
        "setup_cmd": "./setup.sh",
        "hooks": {
            "guard": "PEST_VERIF_TRACE",
            "enable": "no source hooks in /repo: the harness wraps class attributes of pest.stack.Stack / pest.state.ParserState from the outside while PEST_VERIF_TRACE=1 is set by the recorder",
            "baseline_off_cmd": "cd /repo && /venv/bin/python -m pytest -ra -q -p no:cacheprovider --timeout=900 --continue-on-collection-errors",
            "source_commits": [],
            "add_only": True,
        },
        "engines": [
            {"name": "check", "path": "check", "serves_properties": sorted(CHECKS), "kind_free_text": "Python driver: runs TLC on spec/*.tla, replays TLC-enumerated behaviours into the library, validates recorded traces with TLC"},
        ],
        "checks": [CHECKS[p] for p in sorted(CHECKS)],
        "notes": "See DESIGN.md. Exit 2 = machinery failure (never a verdict). known_findings.json lists recorded findings and fixed defects. ./check selftest demonstrates that every trace specification rejects a corrupted trace (anti-vacuity); ./check replay <file> re-executes a recorded case.",
        "not_applicable": na,
    }
    (VERIF / "MANIFEST.json").write_text(json.dumps(m, indent=1) + "\n")


if __name__ == "__main__":
    main()
