"""Generates MANIFEST.json from the table below (single source of truth)."""

from __future__ import annotations

import json
from pathlib import Path

VERIF = Path(__file__).resolve().parent.parent

CHECKS: dict[str, dict] = {}


def check(pid, technique, text, note, design_ref, category="model_checking"):
    CHECKS[pid] = {
        "property_id": pid,
        "quick_cmd": f"./check {pid} --tier quick",
        "thorough_cmd": f"./check {pid} --tier thorough",
        "evidence_file": f"evidence/{pid}.json",
        "replay_cmd_template": "./check replay {path}",
        "engine": "check",
        "level_claimed": {"category": category, "text": text, "design_ref": design_ref},
        "level_note": note,
        "technique": technique,
    }


check(
    "C09",
    "TLA+ refinement (DeltaStack => SnapStack) checked by TLC; TLC-enumerated operation histories replayed into the real Stack/SnapshottingInt/ParserState; Stack traces of real parses validated by TLC against SnapStack",
    "TLC checks that the delta encoding of stack.py (transcribed as DeltaStack.tla) refines a full-copy reference (SnapStack.tla); "
    "every operation history up to the length bound is enumerated by TLC from the reference models and stepped through the real "
    "objects with the visible state compared after each step (exhaustive within the bound), long random behaviours come from TLC "
    "-simulate, and the Stack operations of real parses are recorded and validated by TLC as SnapStack behaviours.",
    "Trusted: TLC/SANY, CommunityModules Json, CPython. pop/ok/restore on an empty container raise by contract and are outside the histories. Bounded: Stack histories <= 7 (quick) / 8 (thorough) operations.",
    "DESIGN.md 2.4, 5 (C09)",
)

NOT_YET = {
}


def main():
    props = [json.loads(l)["id"] for l in (VERIF / "properties.jsonl").read_text().splitlines() if l.strip()]
    na = []
    for p in props:
        if p not in CHECKS:
            na.append({"property_id": p, "reason": NOT_YET.get(p, "check not built yet in this round; no claim is made (see DESIGN.md section 7 for the construction order)")})
    m = {
        "version": 1,
        "setup_cmd": "./setup.sh",
        "hooks": {
            "guard": "PEST_VERIF_TRACE",
            "enable": "no source hooks in /repo: the harness wraps class attributes of pest.stack.Stack / pest.state.ParserState from the outside while PEST_VERIF_TRACE=1 is set by the recorder",
            "baseline_off_cmd": "cd /repo && /venv/bin/python -m pytest -ra -q -p no:cacheprovider --timeout=900 --continue-on-collection-errors",
            "source_commits": [],
            "add_only": True,
        },
        "engines": [
            {"name": "check", "path": "check", "serves_properties": sorted(CHECKS), "kind_free_text": "Python driver: runs TLC on spec/*.tla, replays TLC-enumerated behaviours into the library, validates recorded traces with TLC"},
        ],
        "checks": [CHECKS[p] for p in sorted(CHECKS)],
        "notes": "See DESIGN.md. Exit 2 = machinery failure (never a verdict). known_findings.json lists recorded findings and fixed defects.",
        "not_applicable": na,
    }
    (VERIF / "MANIFEST.json").write_text(json.dumps(m, indent=1) + "\n")


if __name__ == "__main__":
    main()
