"""C05 - stack operations match their specification and are undone on backtracking.

Family "stack" (spec/Families.tla): r = { SETUP ~ MID ~ PROBE } where MID places every stack operation
(alone and in two-element sequences) inside every backtracking context (optional, both predicates, nested
predicates, choice alternatives that fail after the operation, repetitions) and PROBE makes the rest of
the match depend on the stack contents after the backtracking point.  Reference outcomes from PestSem
(backtracking by value) replayed into interpreter and generated module.  The runtime side of the same
claim - every restore returns the user stack to the matching checkpoint - is validated on recorded
traces by C09's StackTrace.
"""

from __future__ import annotations

from . import common as C
from . import replay
from . import specvssuite


def run(tier: str) -> int:
    rep = C.Report("C05", tier)
    rep.distinct = None
    thorough = tier == "thorough"
    modes = ("interp", "gen")
    specvssuite.run(rep, max_len=6000 if thorough else 700)  # the oracle itself must accept what the repository's suite blesses
    if not thorough:
        fams = [
            {"Family": "stack1", "MaxLen": 3, "Starts": "zero", "Sample": 0, "workers": 4, "style": "both"},
            {"Family": "stack", "MaxLen": 4, "Starts": "zero", "Sample": 1000, "workers": 4},
            {"Family": "stackdeep", "MaxLen": 3, "Starts": "zero", "Sample": 2500, "workers": 4},
            {"Family": "stackclear", "MaxLen": 3, "Starts": "zero", "Sample": 0, "workers": 3},
            {"Family": "trivfx", "MaxLen": 4, "Starts": "zero", "Sample": 300, "workers": 3},  # implicit rules that push / pop
            {"Family": "stacke", "MaxLen": 3, "Starts": "zero", "Sample": 0, "workers": 3, "style": "both"},  # empty strings on the stack
            {"Family": "ci", "MaxLen": 3, "Starts": "zero", "Sample": 350, "workers": 3, "style": "min"},  # PUSH of an insensitive literal pushes what was matched
        ]
    else:
        fams = [
            {"Family": "stack1", "MaxLen": 5, "Starts": "zero", "Sample": 0, "workers": 8, "style": "both"},
            {"Family": "stack", "MaxLen": 5, "Starts": "zero", "Sample": 0, "workers": 12},
            {"Family": "stackdeep", "MaxLen": 4, "Starts": "zero", "Sample": 30000, "workers": 12},
            {"Family": "stackclear", "MaxLen": 4, "Starts": "zero", "Sample": 0, "workers": 8},
            {"Family": "trivfx", "MaxLen": 4, "Starts": "zero", "Sample": 0, "workers": 8},
            {"Family": "stacke", "MaxLen": 4, "Starts": "zero", "Sample": 0, "workers": 8, "style": "both"},
            {"Family": "ci", "MaxLen": 3, "Starts": "zero", "Sample": 0, "workers": 8, "style": "min"},
        ]
    for f in fams:
        replay.run_family(rep, f, "sem", modes)
    # runtime side (code -> spec): the checkpoint/ok/restore calls of real parses are a behaviour of CheckpointState
    from . import c05state  # noqa: PLC0415

    c05state.run(rep, thorough)
    # the interpreter as a machine (PestVM.tla): TLC checks the checkpoint protocol computes the by-value semantics; the real
    # interpreter's checkpoint events are compared with the machine's, case by case (agreement is evidence, drift is a note)
    from . import pestvm  # noqa: PLC0415

    pestvm.run(rep, C.import_pest(), thorough)
    # ... and in the other direction on real grammars: recorded parses of the suite's and the bundled grammars validated by TLC
    # as behaviours of the machine (PestVMTrace.tla)
    from . import vmtrace  # noqa: PLC0415

    vmtrace.run(rep, C.import_pest(), thorough)
    rep.rule = (
        "grammars: r = { SETUP ~ MID ~ PROBE }, MID = each of the 11 stack terminals (alone: family stack1, complete, printed with and without redundant parentheses; in two-element sequences: family stack) "
        "in each of 13 backtracking contexts, 3 setups x 4 probes; family stackdeep: an inner construct that commits stack changes nested in an outer alternative / optional / predicate that then fails, "
        "5^4 operation choices x 4 inner x 4 outer shapes x 2 setups x 3 probes; inputs: all strings over the family alphabet up to MaxLen; a case = (grammar, input); non-trivial = reference outcome is a successful parse"
    )
    rep.exhaustive = thorough
    rep.assumptions = ["PEEK[a..b] with indices outside the stack is outside the domain (pest fails, Python clamps; no statement pins it)"]
    return rep.finish()
