"""C13 - parse failures carry a valid position and a message that always renders.

Every failing case of the TLC-enumerated families (incl. the multi-line family "nl": failure at offset 0, at end of input,
on an empty line, after a trailing line break, inside predicates) and of the bundled grammars on mutated, multi-line and
non-ASCII inputs, in four modes: start <= p <= len(input) or the sentinel -1; expected/unexpected/rule-stack names are rules
of the grammar or built-ins; str() and detailed_message() render; and the line:column and source line shown are validated
by TLC against spec/LineCol.tla (spec/ErrTrace.tla).
"""

from __future__ import annotations

import glob
import json
import os
import random
import re

from . import common as C
from . import corpus
from . import modes as M
from . import replay

_RE_EV = re.compile(r'<<"EV", (\d+), "(\w+)">>')

EXTRA = [
    ('r = { "é" ~ NEWLINE* ~ "😀" ~ !"x" ~ EOI }', "r", ["", "é", "é\n", "é\n\n", "é\n\n😀x", "é😀\n", "\n", "é\n \n😀", "é\r\n😀 ", "😀", "é\n\n\n"]),
    ('r = { line ~ (NEWLINE ~ line)* ~ EOI }\nline = { (!NEWLINE ~ "a")+ }', "r", ["a\n", "a\n\na", "a\nab", "aa\naa\n", "\na", "a\n a", "a\naa\nb"]),
    ('r = { &("a" ~ "b") ~ "a" ~ !("b" ~ "c") ~ ANY ~ "\\n" ~ "日本" }\nWHITESPACE = _{ " " }', "r", ["ab\n日本", "ab\n日", "abc", "a b \n 日本語", "a", "ab", "ab\n", "ab \n\n"]),
]


def validate_err_files(rep, files):
    n = 0
    for f in files:
        events = [json.loads(x) for x in open(f)]
        if not events:
            os.unlink(f)
            continue
        verdicts: dict[int, str] = {}

        def on_line(line):
            m = _RE_EV.match(line)
            if m:
                verdicts[int(m[1])] = m[2]

        st = C.run_tlc("ErrTrace", C.SPEC / "ErrTrace.cfg", on_line=on_line, workers=1, env={"TRACE_FILE": f}, tag=f"ErrTrace_{os.path.basename(f)}", prefixes=("<<",))
        if st.error or len(verdicts) != len(events):
            raise C.MachineryError(f"ErrTrace could not evaluate {f}: {st.error}\n" + "\n".join(st.tail[-20:]))
        rep.add_tlc(st, f"ErrTrace ({len(events)} distinct rendered errors)")
        n += len(events)
        for i, e in enumerate(events):
            v = verdicts[i + 1]
            if v != "accept":
                text = "".join(chr(c) for c in e["text"])
                rep.violation(
                    {"kind": "error-render", "verdict": v, "input": text, "start": e["start"], "furthest_pos": e["p"], "shown_line_col": [e["line"], e["col"]], "shown_source_line": "".join(chr(c) for c in e["shown"])},
                    f"error for input {text!r} at furthest_pos {e['p']}: message shows {e['line']}:{e['col']} and line {''.join(chr(c) for c in e['shown'])!r} - ErrTrace verdict {v}",
                )
        os.unlink(f)
    return n


def bundled_errors(rep, pest, thorough):
    rnd = random.Random(C.SEED)
    d = C.OUT / "traces"
    d.mkdir(parents=True, exist_ok=True)
    path = str(d / f"c13_bundled_{os.getpid()}.ndjson")
    seen = set()
    n_err = 0
    items = [{"name": f"extra{i}", "grammar": g, "samples": [(r, t) for t in ins]} for i, (g, r, ins) in enumerate(EXTRA)]
    with open(path, "w") as fh:
        for b in items + corpus.bundled() + corpus.other_suite_grammars():
            gtext = b["grammar"]
            try:
                own = set(pest.Parser.from_grammar(gtext, optimizer=None).rules)  # the rules of the GRAMMAR (the optimizer adds a synthetic SKIP)
            except Exception:  # noqa: BLE001
                continue
            for mode in M.MODES:
                try:
                    parser, base = M.build(pest, gtext, mode)
                except Exception:  # noqa: BLE001
                    continue
                names = own | set(pest.Parser.BUILTIN)
                for rule, text in b["samples"]:
                    if rule not in base.rules:
                        continue
                    inputs = [text] + corpus.mutate(rnd, text, 4 if not thorough else 16) + [text + "\n", "\n" + text]
                    for t in inputs:
                        starts = [0] if len(t) > 40 else sorted({0, len(t) // 2, len(t)})
                        for k in starts:
                            o = M.run_parse(pest, parser, rule, t, k, keep=True, timeout=20)
                            rep.evaluations += 1
                            if "exc" in o or "timeout" in o:
                                continue  # totality is C07's claim
                            if o.get("ok") is not False:
                                continue
                            n_err += 1
                            probs, ev = replay.error_checks(o["_err"], t, k, names)
                            for pr in probs:
                                rep.violation({"kind": "error", "grammar": b["name"], "mode": mode, "rule": rule, "input": t, "start": k, "problem": pr}, f"{b['name']}[{mode}] {rule} on {t[:60]!r} start={k}: {pr}")
                            if ev is not None:
                                key = (t, ev["p"], ev["line"], ev["col"], tuple(ev["shown"]))
                                if key not in seen and len(t) <= 3000:
                                    seen.add(key)
                                    fh.write(json.dumps(ev) + "\n")
    rep.extra["bundled_failures"] = n_err
    return path, n_err


def run(tier: str) -> int:
    rep = C.Report("C13", tier)
    rep.distinct = None
    pest = C.import_pest()
    thorough = tier == "thorough"
    for f in glob.glob(str(C.OUT / "traces" / "c13_*")):
        os.unlink(f)
    modes = ("interp", "gen", "opt", "optgen")
    if not thorough:
        fams = [
            {"Family": "nl", "MaxLen": 3, "Starts": "all", "Sample": 160, "workers": 3},
            {"Family": "core2", "MaxLen": 3, "Starts": "zero", "Sample": 120, "workers": 2},
            {"Family": "trivia3", "MaxLen": 3, "Starts": "zero", "Sample": 100, "workers": 3},
            {"Family": "stack", "MaxLen": 3, "Starts": "zero", "Sample": 250, "workers": 3},
            {"Family": "trivia2", "MaxLen": 3, "Starts": "zero", "Sample": 200, "workers": 3},  # every trivia configuration, also COMMENT alone (fused SKIP rule)
            {"Family": "opttrv", "MaxLen": 3, "Starts": "zero", "Sample": 120, "workers": 3, "style": "min"},
            {"Family": "trivfx", "MaxLen": 3, "Starts": "zero", "Sample": 500, "workers": 4},
        ]
    else:
        fams = [
            {"Family": "nl", "MaxLen": 4, "Starts": "all", "Sample": 0, "workers": 8},
            {"Family": "core2", "MaxLen": 4, "Starts": "all", "Sample": 0, "workers": 8},
            {"Family": "trivia3", "MaxLen": 4, "Starts": "zero", "Sample": 1500, "workers": 8},
            {"Family": "mods", "MaxLen": 4, "Starts": "zero", "Sample": 1000, "workers": 8},
            {"Family": "stack", "MaxLen": 4, "Starts": "zero", "Sample": 3000, "workers": 8},
            {"Family": "trivia2", "MaxLen": 4, "Starts": "zero", "Sample": 0, "workers": 8},
            {"Family": "opttrv", "MaxLen": 4, "Starts": "zero", "Sample": 0, "workers": 8, "style": "min"},
            {"Family": "trivfx", "MaxLen": 3, "Starts": "zero", "Sample": 0, "workers": 8},
        ]
    for f in fams:
        replay.run_family(rep, f, "err", modes)
    merged = str(C.OUT / "traces" / f"c13_families_{os.getpid()}.ndjson")
    seen_lines = set()
    with open(merged, "w") as out:
        for f in glob.glob(str(C.OUT / "traces" / "c13_err_*.ndjson")):
            for line in open(f):
                if line not in seen_lines:
                    seen_lines.add(line)
                    out.write(line)
            os.unlink(f)
    n1 = validate_err_files(rep, [merged])
    path, n_err = bundled_errors(rep, pest, thorough)
    n2 = validate_err_files(rep, [path])
    rep.extra["rendered_errors_validated_by_tlc"] = n1 + n2
    if n1 < 200 or n2 < 50:
        raise C.MachineryError(f"too few rendered errors recorded ({n1}, {n2})")
    rep.rule = (
        "a case = one failing parse: TLC-enumerated families (incl. multi-line family) x inputs x start positions x four modes, plus bundled grammars and three non-ASCII/multi-line "
        "grammars on corpus, mutated, newline-prefixed/suffixed inputs; distinct rendered (input, position, message) triples are validated by TLC against LineCol"
    )
    rep.distinct_count = n1 + n2
    rep.exhaustive = False
    rep.assumptions = ["the message strips trailing white space from the source line it shows; compared modulo that", "texts whose only line break is \\n for the line:column clause (\\r\\n inputs are rendered but their line:column is compared too: \\r is an ordinary character)"]
    return rep.finish()
