"""C18 - PrattParser honours declared precedence and associativity.

Spec      : spec/OpExpr.tla - operator tables, well-formed streams, the DENOTED tree defined declaratively (the unique tree
            with the stream as yield and no precedence inversion; TLC checks uniqueness on every instance) and the Pratt loop
            of src/pest/pratt.py transcribed; TLC checks the loop consumes the stream and builds the denoted tree.
Spec->code: every (table, stream) instance with its denoted tree is replayed into a real PrattParser subclass fed with a
            Stream of synthetic Pairs; the tree built by the hooks must be the denoted tree and the stream must be consumed.
"""

from __future__ import annotations

from . import common as C
from .c09 import write_cfg


def make_parser(pest, table):
    from pest import PrattParser  # noqa: PLC0415

    class P(PrattParser):
        PREFIX_OPS = dict(table["pre"]) if table["pre"] else {}
        POSTFIX_OPS = dict(table["post"]) if table["post"] else {}
        INFIX_OPS = {k: (v["p"], bool(v["right"])) for k, v in table["inf"].items()}

        def parse_primary(self, pair):
            return ["p", pair.start]

        def parse_prefix(self, op, rhs):
            return ["pre", op.name, rhs]

        def parse_postfix(self, lhs, op):
            return ["post", op.name, lhs]

        def parse_infix(self, lhs, op, rhs):
            return ["in", op.name, lhs, rhs]

    return P()


def renaming(table) -> dict:
    """prefix operator name -> an infix / postfix operator name of the same table (positions keep the roles apart)."""
    others = sorted(table["inf"]) + sorted(table["post"])
    return dict(zip(sorted(table["pre"]), others))  # one to one: a prefix operator left over keeps its own name


def rename_tree(t, ren):
    if isinstance(t, list) and t and t[0] == "pre":
        return ["pre", ren.get(t[1], t[1]), rename_tree(t[2], ren)]
    if isinstance(t, list):
        return [rename_tree(x, ren) if isinstance(x, list) else x for x in t]
    return t


def run(tier: str) -> int:
    rep = C.Report("C18", tier)
    rep.distinct = None
    pest = C.import_pest()
    from pest import Pair, RuleFrame, Stream  # noqa: PLC0415

    thorough = tier == "thorough"
    maxtoks = 6 if not thorough else 7
    cfg = write_cfg("OpExpr", "Spec", {"MaxToks": maxtoks, "MaxPrec": 4, "PostfixGuard": "TRUE"}, invariants=["Unique", "PrattCorrect", "Emit"])
    frames: dict[str, object] = {}
    n_tables = 0

    def on_line(line):
        nonlocal n_tables
        rec = C.decode_printt(line)
        table = rec["table"]
        # ToJson renders the empty function <<>> as [] : normalise
        for k in ("pre", "post"):
            if not isinstance(table[k], dict):
                table[k] = {}
        n_tables += 1
        parser = make_parser(pest, table)
        for case in rec["cases"]:
            toks = case["toks"]
            text = "x" * len(toks)
            pairs = []
            for i, t in enumerate(toks):
                name = "x" if t["t"] == "p" else t["n"]
                fr = frames.setdefault(name, RuleFrame(name, 0))
                pairs.append(Pair(text, i + 1, i + 1, fr))
            stream = Stream(pairs)
            rep.evaluations += 1
            try:
                got = parser.parse_expr(stream)
                rest = stream.peek()
            except Exception as e:  # noqa: BLE001
                rep.violation({"kind": "pratt", "table": table, "tokens": toks, "error": f"{type(e).__name__}: {e}"}, f"PrattParser raised {type(e).__name__} on {[t['n'] for t in toks]} with {table}")
                continue
            if len(toks) >= 4:
                rep.distinct_count += 1
            if got != case["tree"] or rest is not None:
                rep.violation(
                    {"kind": "pratt", "table": table, "tokens": toks, "denoted_tree": case["tree"], "built_tree": got, "stream_consumed": rest is None},
                    f"table {table} stream {[t['n'] for t in toks]}: built {got}, denoted {case['tree']}, consumed={rest is None}",
                )
            elif len(toks) == maxtoks:
                rep.sample({"table": table, "tokens": [t["n"] for t in toks], "denoted_tree": case["tree"]}, limit=4)
            # the same instance once more, the way a statement parser meets it: (i) a rule name may sit in two tables - unary and
            # binary minus are one rule - and which operator a token is follows from WHERE it stands (a prefix operator stands
            # where an operand is expected), so the prefix names are renamed to infix / postfix names of the same table;
            # (ii) the stream has been looked at before (next, peek, backup - one token of lookahead, then put back)
            ren = renaming(table)
            if ren or len(toks) > 1:
                table2 = {"inf": table["inf"], "post": table["post"], "pre": {ren.get(k, k): v for k, v in table["pre"].items()}}
                parser2 = make_parser(pest, table2)
                toks2 = [({**t, "n": ren.get(t["n"], t["n"])} if t["t"] == "pre" else t) for t in toks]
                pairs2 = []
                for i, t in enumerate(toks2):
                    name = "x" if t["t"] == "p" else t["n"]
                    pairs2.append(Pair(text, i + 1, i + 1, frames.setdefault(name, RuleFrame(name, 0))))
                stream2 = Stream(pairs2)
                if len(toks) > 1:
                    stream2.next()
                    stream2.peek()
                    stream2.backup()
                want2 = rename_tree(case["tree"], ren)
                rep.evaluations += 1
                try:
                    got2 = parser2.parse_expr(stream2)
                    rest2 = stream2.peek()
                except Exception as e:  # noqa: BLE001
                    rep.violation({"kind": "pratt-shared-names", "table": table2, "tokens": toks2, "error": f"{type(e).__name__}: {e}"}, f"PrattParser raised {type(e).__name__}: {e} on {[t['n'] for t in toks2]} with {table2} (prefix operators sharing rule names with infix / postfix ones; stream inspected before)")
                    continue
                if got2 != want2 or rest2 is not None:
                    rep.violation({"kind": "pratt-shared-names", "table": table2, "tokens": toks2, "denoted_tree": want2, "built_tree": got2, "stream_consumed": rest2 is None},
                                  f"table {table2} stream {[t['n'] for t in toks2]} (inspected with next/peek/backup before): built {got2}, denoted {want2}, consumed={rest2 is None}")

    st = C.run_tlc("OpExpr", cfg, on_line=on_line, workers=8 if not thorough else 16, tag="OpExpr", xmx="8g")
    C.require_tlc_ok(st, "OpExpr")
    rep.add_tlc(st, f"OpExpr MaxToks={maxtoks} MaxPrec=4: Unique, PrattCorrect")
    rep.traces = rep.evaluations
    rep.extra["tables"] = n_tables
    rep.exhaustive = True
    rep.rule = (
        f"all operator tables with 1-2 infix operators (each associativity), 0-1 prefix, 0-1 postfix, precedences 1..4, no level shared between fixities ({n_tables} tables) "
        f"x all well-formed token streams up to {maxtoks} tokens; an instance = (table, stream); non-trivial = stream of at least 4 tokens"
    )
    rep.assumptions = ["tables are well-formed: a precedence level belongs to one fixity; equal-precedence infix operators share their associativity"]
    return rep.finish()
