"""C11 - loading a grammar is total: a Parser or a renderable PestGrammarError.

Texts: the C10 streams (hand-written probes incl. texts ending inside a string / escape / comment / rule, bundled .pest files,
rendered sentences, token and character mutations, prefixes) plus ALL strings over the 25-symbol grammar alphabet up to length 3
(quick) / 4 (thorough) enumerated by TLC (spec/MetaShort.tla) and length 4 / 5 enumerated by the harness for totality only.
Each is loaded with optimizer=None and with the default optimizer under a watchdog; the outcome must be a Parser or a
PestGrammarError whose str() renders and whose line:column exists in the text (spec/LineCol.tla bounds: 1 <= L <= #lines + 1,
0 <= C <= len(line L) + 1; both column conventions accepted).  The recogniser's verdict (TLC) is attached: a refused text that is
valid pest, or an accepted one that is not, is C10's business; here only totality and the position are judged.
"""

from __future__ import annotations

import itertools
import multiprocessing as mp

from . import common as C
from . import frontend as F
from . import metasyntax as MS
from .c09 import write_cfg
from .c10 import SHORT_ALPHABET


def judge_total(rep, text, obs, counts):
    for key in ("none", "default", "debug"):
        o = obs[key]
        counts[o["class"]] = counts.get(o["class"], 0) + 1
        if o["class"] == "other" and o.get("type") == "MemoryError" and text in F.EAGER_UNROLL_TEXTS:
            # recorded finding: repetition counts are unrolled eagerly, so a count near the 32-bit limit cannot be allocated
            rep.known_finding("eager-unroll-memory", f"from_grammar({text!r}, optimizer={key}) -> MemoryError")
        elif o["class"] in ("other", "timeout"):
            rep.violation({"kind": "not-total", "text": text, "optimizer": key, "outcome": o}, f"from_grammar({text[:100]!r}, optimizer={key}) -> {o.get('type', 'timeout')}: {o.get('message', '')[:120]}")
        elif o["class"] == "grammar_error":
            if "render_error" in o:
                rep.violation({"kind": "unrenderable", "text": text, "optimizer": key, "outcome": o}, f"str() of the {o['type']} for {text[:100]!r} raised {o['render_error']}")
            elif "line" in o:
                lines = text.split("\n")
                ln, col = o["line"], o["col"]
                ok = 1 <= ln <= len(lines) + 1 and 0 <= col <= (len(lines[ln - 1]) if ln <= len(lines) else 0) + 1
                if not ok:
                    rep.violation({"kind": "position", "text": text, "optimizer": key, "line": ln, "col": col}, f"error for {text[:100]!r} points at {ln}:{col}, which does not exist in the text ({len(lines)} lines)")
            # an error without a token (no position) is allowed: "normally PestGrammarSyntaxError"


def run(tier: str) -> int:
    rep = C.Report("C11", tier)
    rep.distinct = None
    pest = C.import_pest()
    thorough = tier == "thorough"
    MS.check_meta_constant(pest)
    pool = mp.get_context("fork").Pool(14, initializer=F._init)
    counts: dict[str, int] = {}

    texts, src = F.gather_texts(tier, rep)
    futs = [pool.apply_async(F.observe_many, (texts[i : i + 100],)) for i in range(0, len(texts), 100)]
    for t, obs in zip(texts, [o for f in futs for o in f.get(timeout=3600)]):
        rep.evaluations += 1
        judge_total(rep, t, obs, counts)
    rep.sample({"text": texts[7], "class": "see counts"})

    # long chains, deep nesting, numbers beyond 32 bits / beyond Python's conversion limit, lone surrogates, loaded under
    # CPython's DEFAULT recursion limit
    stress = F.stress_texts()
    futs = [pool.apply_async(F.observe_many_default_limits, (stress[i : i + 8],)) for i in range(0, len(stress), 8)]
    for t, obs in zip(stress, [o for f in futs for o in f.get(timeout=3600)]):
        rep.evaluations += 1
        judge_total(rep, t, obs, counts)
    rep.extra["stress_texts"] = len(stress)

    # all short strings, TLC-enumerated (with the recogniser's verdict for the record)
    n = 3 if not thorough else 4
    cfg = write_cfg("MetaShort11", "Spec", {"N": n, "Alphabet": "{" + ", ".join(str(ord(c)) for c in SHORT_ALPHABET) + "}"}, invariants=["Emit"])
    short: list[tuple[str, bool]] = []
    st = C.run_tlc("MetaShort", cfg, on_line=lambda ln: short.append((lambda r: ("".join(chr(c) for c in r["t"]), r["ok"]))(C.decode_printt(ln))), workers=8 if thorough else 4, env={"META_FILE": str(MS.META_JSON)}, tag="MetaShort11", xss="512m", timeout=3000)
    C.require_tlc_ok(st, "MetaShort")
    rep.add_tlc(st, f"MetaShort: all strings over {len(SHORT_ALPHABET)} symbols up to length {n}")
    stexts = [t for t, _ in short]
    futs = [pool.apply_async(F.observe_many, (stexts[i : i + 2000],)) for i in range(0, len(stexts), 2000)]
    valid_short = 0
    for (t, ok), obs in zip(short, [o for f in futs for o in f.get(timeout=3600)]):
        rep.evaluations += 1
        valid_short += ok
        judge_total(rep, t, obs, counts)

    # one length further, enumerated by the harness: totality needs no verdict
    longer = ["".join(x) for x in itertools.product(SHORT_ALPHABET, repeat=n + 1)]
    futs = [pool.apply_async(F.observe_many, (longer[i : i + 5000],)) for i in range(0, len(longer), 5000)]
    for i, f in enumerate(futs):
        for t, obs in zip(longer[i * 5000 : (i + 1) * 5000], f.get(timeout=7200)):
            rep.evaluations += 1
            judge_total(rep, t, obs, counts)
    pool.close()
    pool.join()
    rep.traces = rep.evaluations
    rep.distinct_count = rep.evaluations
    rep.extra.update({"text_sources": src, "short_strings_tlc": len(short), "short_strings_valid": valid_short, "longer_strings_harness": len(longer), "outcome_classes": counts})
    rep.exhaustive = True
    rep.rule = (
        f"all strings over the {len(SHORT_ALPHABET)}-symbol grammar alphabet up to length {n} (TLC-enumerated) and of length {n + 1} (harness), exhaustively; plus the C10 text streams "
        "(probes, bundled grammars, rendered sentences, token/char mutations, prefixes); each loaded with optimizer=None, with the default optimizer and with the default optimizer and debug=True; every text is distinct"
    )
    rep.assumptions = ["both column conventions (0- or 1-based) accepted for the position", "a PestGrammarError without a position is allowed"]
    return rep.finish()
