"""C12, escapes: TLC-emitted (escape text, code point) cases from spec/Escapes.tla observed through loaded grammars."""

from __future__ import annotations

from . import common as C
from . import modes as M
from .c09 import write_cfg


def run(rep, pest, thorough: bool) -> None:
    cases = []
    cfg = write_cfg("Escapes", "Spec", {"Stride": 0 if not thorough else 997}, invariants=["DecodeAgrees", "Emit"])
    st = C.run_tlc("Escapes", cfg, on_line=lambda ln: cases.append(C.decode_printt(ln)), workers=4, tag="Escapes", timeout=1800)
    C.require_tlc_ok(st, "Escapes")
    rep.add_tlc(st, "Escapes: DecodeAgrees; (escape, code point) cases")
    if len(cases) < 500:
        raise C.MachineryError("too few escape cases")
    n = 0
    for i in range(0, len(cases), 150):
        batch = cases[i : i + 150]
        # load each literal on its own first (a rejected escape must not hide the others), then batch the accepted ones
        for j, c in enumerate(batch):
            esc = "".join(chr(x) for x in c["esc"])
            cp = c["cp"]
            tail = esc[1:]  # the escape without its backslash: after an ESCAPED backslash it is ordinary text
            g = (
                f's = {{ "{esc}" }}\nq = {{ "a{esc}B" }}\nc = {{ \'{esc}\'..\'{esc}\' }}\n'
                f'i = {{ ^"{esc}x" }}\nl = {{ PUSH_LITERAL("{esc}") ~ POP }}\n'
            )
            with_bs = tail[0] not in '"\\'  # \\" and \\\\ would end / continue the literal
            if with_bs:
                g += f'd = {{ "\\\\{tail}" }}\ne = {{ ^"\\\\{tail}" }}\nf = {{ PUSH_LITERAL("\\\\{tail}") ~ POP }}\n'
            n += 1
            try:
                p = pest.Parser.from_grammar(g, optimizer=None)
            except Exception as e:  # noqa: BLE001
                # which literal is refused?
                which = []
                for rule in (f's = {{ "{esc}" }}', f"c = {{ '{esc}'..'{esc}' }}"):
                    try:
                        pest.Parser.from_grammar(rule, optimizer=None)
                    except Exception as e2:  # noqa: BLE001
                        which.append(f"{rule} -> {type(e2).__name__}")
                rep.violation({"kind": "escape-rejected", "escape": esc, "code_point": cp, "refused": which}, f"escape {esc!r} (U+{cp:04X}) is valid pest but the front end refuses it: {which}")
                continue
            ch = chr(cp)
            obs = {
                "s": M.run_parse(pest, p, "s", ch),
                "q": M.run_parse(pest, p, "q", "a" + ch + "B"),
                "c": M.run_parse(pest, p, "c", ch),
            }
            bad = [r for r, o in obs.items() if not (o.get("ok") and o["pairs"][0][1:3] == [0, len(ch) if r != "q" else len(ch) + 2])]
            # the same escape in an insensitive literal and in PUSH_LITERAL; and after an escaped backslash, where it is plain text
            lit = "\\" + tail
            for rule, text in (("i", ch + "x"), ("i", ch + "X"), ("l", ch)) + ((("d", lit), ("e", lit), ("f", lit)) if with_bs else ()):
                o = M.run_parse(pest, p, rule, text)
                if not (o.get("ok") and o["pairs"][0][1:3] == [0, len(text)]):
                    bad.append(f"rule {rule} on {text!r}: {str(o)[:80]}")
            for rule, text in (("d", ch), ("e", ch), ("f", ch), ("d", "\\" + ch), ("e", "\\" + ch)) if with_bs else ():
                o = M.run_parse(pest, p, rule, text)
                if o.get("ok") and o["pairs"][0][1:3] == [0, len(text)] and text != lit:
                    bad.append(f"rule {rule} (an escaped backslash followed by {tail!r}) matches {text!r}")
            # neighbours must fail
            for other in {chr(cp - 1) if cp > 0 else None, chr(cp + 1) if cp < 0x10FFFF and cp + 1 != 0xD800 else None, ""}:
                if other is None:
                    continue
                if M.run_parse(pest, p, "s", other).get("ok") or M.run_parse(pest, p, "c", other).get("ok"):
                    bad.append(f"also matches {other!r}")
            if bad:
                rep.violation({"kind": "escape-value", "escape": esc, "code_point": cp, "problems": bad, "observed": obs}, f"escape {esc!r} should denote U+{cp:04X}: {bad}")
            elif cp in (0x41, 0x10FFFF, 0):
                rep.sample({"escape": esc, "denotes": f"U+{cp:04X}"}, limit=8)
    rep.evaluations += n
    rep.traces += n
    rep.extra["escape_cases"] = n
