"""pytest plugin (loaded with -p verif_rec, only by the harness): records every Parser.parse call the repository's
suite makes through an interpreted Parser - grammar text, optimizer on/off, rule, input, start, outcome.

No source hook: Parser.from_grammar / Parser.parse are wrapped from the outside, only when PEST_VERIF_TRACE=1.
"""
import atexit
import json
import os

if os.environ.get("PEST_VERIF_TRACE") == "1":
    import pest
    from pest import Parser, PestParsingError

    _out = open(os.environ["VERIF_REC_OUT"], "a")  # noqa: SIM115
    _orig_from = Parser.from_grammar.__func__

    def from_grammar(cls, grammar, *, optimizer=pest.DEFAULT_OPTIMIZER, debug=False):
        p = _orig_from(cls, grammar, optimizer=optimizer, debug=debug)
        p._verif_grammar = grammar
        p._verif_opt = optimizer is not None
        return p

    Parser.from_grammar = classmethod(from_grammar)
    _orig_parse = Parser.parse

    def parse(self, start_rule, text, *, start_pos=0):
        out = None
        try:
            r = _orig_parse(self, start_rule, text, start_pos=start_pos)
            out = {"ok": True}
            return r
        except PestParsingError:
            out = {"ok": False}
            raise
        finally:
            g = getattr(self, "_verif_grammar", None)
            if g is not None and out is not None:
                _out.write(json.dumps({"g": g, "opt": self._verif_opt, "rule": str(start_rule), "input": text, "start": start_pos, "ok": out["ok"]}) + "\n")

    Parser.parse = parse
    atexit.register(_out.close)
