"""PestVM.tla - the interpreter as a small-step machine (checkpoint protocol, children buffers, rule entry/exit).

Spec level : TLC checks on sampled / whole families that the machine computes PestSem's outcome (Refines), leaves nothing open
             (Balanced), keeps the number of open checkpoints equal to the number of active backtracking frames (Discipline) and
             that every restore returns to the registers of its checkpoint (RestoreExact).  A failure here is a defect of the
             MODEL (exit 2), never a verdict about the library.
Spec->code : the machine's checkpoint/ok/restore events (with position, user stack, rule-stack depth, atomic depth after each)
             are emitted per case and compared with the events recorded from the real interpreter on the same case.  Agreement
             says the code follows the modelled protocol step by step, which carries TLC's Refines/Balanced result over to it;
             DISAGREEMENT IS NOT A VIOLATION of any property (an interpreter may place its checkpoints differently and still be
             right) - it is counted as model drift in the evidence and printed as a NOTE.
"""

from __future__ import annotations

import json

from . import common as C
from . import gast
from . import modes as M
from . import statetrace
from .replay import write_cfg

FAMILIES_QUICK = [("stack1", 3, 60), ("stackdeep", 3, 40), ("trivia2", 3, 60), ("mods", 3, 40), ("core2", 3, 60), ("trivfx", 3, 60), ("tags", 3, 80)]
FAMILIES_THOROUGH = [("stack1", 3, 600), ("stackdeep", 3, 400), ("trivia2", 3, 600), ("trivia3", 3, 300), ("mods", 3, 400), ("core2", 3, 0), ("core3", 3, 400), ("stack", 3, 400), ("trivfx", 3, 0), ("names", 3, 300), ("tags", 3, 0), ("bounds", 3, 0), ("stacke", 3, 0)]


def vm_pairs(ps):
    """PestVM's <<rule, start, end, children, tag>> -> modes.proj_pair's [rule, start, end, tag, children]."""
    return [[p[0], p[1], p[2], p[4] or None, vm_pairs(p[3])] for p in ps] if ps != 0 else 0


def run(rep: C.Report, pest, thorough: bool) -> None:
    fams = FAMILIES_THOROUGH if thorough else FAMILIES_QUICK
    cases = skipped = 0
    agree = {"interp": 0, "gen": 0}
    drift = {"interp": 0, "gen": 0}
    first_drift: dict = {}
    fp_total = {"interp": 0, "gen": 0}
    fp_agree = {"interp": 0, "gen": 0}
    fp_first: dict = {}
    parsers: dict[str, object] = {}
    for fam, maxlen, sample in fams:
        cfg = write_cfg(f"PestVM_{fam}", {"Family": fam, "MaxLen": maxlen, "Starts": "zero", "Sample": sample}, ["Refines", "Balanced", "Discipline", "RestoreExact", "FurthestInRange", "DeltaAgrees", "TagsFromGrammar", "Emit"])
        lines: list[dict] = []
        st = C.run_tlc("PestVM", cfg, on_line=lambda ln: lines.append(C.decode_printt(ln)), workers=8, extra=["-seed", str(C.SEED + 3)], tag=f"PestVM_{fam}", xss="512m", timeout=2400)
        if st.error:
            raise C.MachineryError(f"PestVM[{fam}]: the machine model does not refine PestSem / breaks its own invariants: {st.error}\n" + "\n".join(st.tail[-25:]))
        C.require_tlc_ok(st, f"PestVM {fam}")
        rep.add_tlc(st, f"PestVM[{fam}] Refines, Balanced, Discipline, RestoreExact, FurthestInRange, DeltaAgrees, TagsFromGrammar (MaxLen={maxlen}, sample={sample or 'all'})")
        for r in lines:
            gtext = gast.print_grammar(r["g"], style="min")
            if gtext not in parsers:
                try:
                    p, base = M.build(pest, gtext, "interp")
                    if gast.norm(gast.export_rules(p, pest)) != gast.norm(r["g"]):
                        p = None
                    else:
                        p = {"interp": p, "gen": M.Generated(base.generate())}
                except Exception:  # noqa: BLE001
                    p = None
                parsers[gtext] = p
            p = parsers[gtext]
            if p is None:
                skipped += 1
                continue
            text = "".join(chr(c) for c in r["inp"])
            cases += 1
            want_all = [{"op": e["op"], "pos": e["pos"], "ustk": [list(x) for x in e["ustk"]], "rdepth": e["rdepth"], "adepth": e["adepth"]} for e in r["tr"]]
            # the generated POP_ALL matches first and pops afterwards: it has no checkpoint of its own (events marked "own")
            want_gen = [w for w, e in zip(want_all, r["tr"]) if not e["own"]]
            for mode in ("interp", "gen"):
                want = want_all if mode == "interp" else want_gen
                sink: list[dict] = []
                with statetrace.recording(pest, sink, raw=True):
                    o = M.run_parse(pest, p[mode], "r", text, r["k"], tags=True)
                got = [{"op": e["op"], "pos": e["pos"], "ustk": e["ustk"], "rdepth": e["rdepth"], "adepth": e["adepth"]} for e in sink if e["op"] != "new"]
                out_ok = (o.get("ok") is True and o["pairs"] == vm_pairs(r["out"])) or (o.get("ok") is False and r["out"] == 0)
                if o.get("ok") is False and r["out"] == 0:
                    fp_total[mode] += 1
                    fp_agree[mode] += o["fpos"] == r["fp"]
                    if o["fpos"] != r["fp"] and mode not in fp_first:
                        fp_first[mode] = {"grammar": gtext, "input": text, "machine": r["fp"], "code": o["fpos"]}
                if got == want and out_ok:
                    agree[mode] += 1
                else:
                    drift[mode] += 1
                    if mode not in first_drift:
                        i = next((j for j, (x, y) in enumerate(zip(got, want)) if x != y), min(len(got), len(want)))
                        first_drift[mode] = {"grammar": gtext, "input": text, "event_index": i, "machine": want[i : i + 2], "code": got[i : i + 2], "outcome_agrees": out_ok}
        parsers.clear()
    if cases == 0:
        raise C.MachineryError("PestVM emitted no case the library could load")
    rep.evaluations += cases
    rep.extra["pestvm"] = {"cases_compared_event_by_event": cases, "follows_the_machine": agree, "model_drift": drift, "skipped_unprintable": skipped, "first_drift": first_drift}
    rep.extra["pestvm"]["furthest_failure_position"] = {"failed_cases": fp_total, "same_position_as_the_machine": fp_agree, "first_difference": fp_first}
    for mode in ("interp", "gen"):
        if fp_agree[mode] != fp_total[mode]:
            print(f"NOTE {rep.prop}: [{mode}] furthest-failure position differs from PestVM's in {fp_total[mode] - fp_agree[mode]} of {fp_total[mode]} failed cases (model drift, not a violation); first: {json.dumps(fp_first[mode])[:500]}")
    for mode, n in drift.items():
        if n:
            print(f"NOTE {rep.prop}: [{mode}] checkpoint events differ from PestVM's in {n} of {cases} cases (model drift, not a violation); first: {json.dumps(first_drift[mode])[:700]}")
