"""Spec -> code replay engine.

TLC enumerates a family of grammars (spec/Families.tla), evaluates the reference semantics
(spec/PestSem.tla) on every (input, start) case and prints one JSON line per grammar.  This engine
streams those lines to a pool of worker processes; each worker prints the grammar as pest text,
checks the front end built what was intended (round-trip guard), builds the grammar in the
requested execution modes and hands every case to a *judge* (one per property).
"""

from __future__ import annotations

import json
import multiprocessing as mp
import os
import re
import time
import zlib
from collections import Counter

from . import common as C
from . import gast
from . import modes as M

_pest = None
VIOL_CAP = int(os.environ.get("VERIF_VIOL_CAP", "10"))


def _init_worker():
    global _pest  # noqa: PLW0603
    C.die_with_parent()
    _pest = C.import_pest()


def text_of(cps) -> str:
    return "".join(chr(c) for c in cps)


# ------------------------------------------------------------------------------------ judges
# A judge gets (ctx, case) and returns a list of (kind, detail-dict).  ctx carries the grammar and
# the built parsers.  Judges never raise for behaviour of the code under test.


def _same(expected, obs) -> bool:
    if expected == 0:
        return obs.get("ok") is False
    return obs.get("ok") is True and obs["pairs"] == expected


def judge_sem(ctx, text, k, expected):
    """Observed outcome (success/failure + tree without tags) equals the reference outcome."""
    out = []
    for mode in ctx["modes"]:
        obs = M.run_parse(_pest, ctx["parsers"][mode], ctx["rule"], text, k, tags=False)
        if not _same(expected, obs):
            out.append(("sem", {"mode": mode, "expected": expected, "observed": obs}))
    return out


def judge_total(ctx, text, k, expected):
    """C07: Pairs or PestParsingError, never anything else; the repeated call is equal."""
    out = []
    for mode in ctx["modes"]:
        p = ctx["parsers"][mode]
        o1 = M.run_parse(_pest, p, ctx["rule"], text, k)
        if "exc" in o1 or "timeout" in o1:
            out.append(("total", {"mode": mode, "observed": o1}))
            continue
        o2 = M.run_parse(_pest, p, ctx["rule"], text, k)
        if o1 != o2:
            out.append(("nondet", {"mode": mode, "first": o1, "second": o2}))
    return out


def judge_geninterp(ctx, text, k, expected):
    """C01: generated module == interpreter on the same Parser (tree incl. tags, or same furthest pos)."""
    out = []
    for a, b in (("interp", "gen"), ("opt", "optgen")):
        if a not in ctx["parsers"]:
            continue
        oa = M.run_parse(_pest, ctx["parsers"][a], ctx["rule"], text, k)
        ob = M.run_parse(_pest, ctx["parsers"][b], ctx["rule"], text, k)
        if oa != ob:
            out.append(("gen!=interp", {"modes": [a, b], a: oa, b: ob, "expected": expected}))
    return out


def shift_pairs(ps, d):
    return [[p[0], p[1] + d, p[2] + d, *(p[3:-1]), shift_pairs(p[-1], d)] for p in ps]


def judge_shift(ctx, text, k, expected):
    """C16: parse(text, start_pos=k) == parse(text[k:]) shifted by k; the prefix is never consulted."""
    out = []
    if k == 0:
        return out
    for mode in ctx["modes"]:
        p = ctx["parsers"][mode]
        at_k = M.run_parse(_pest, p, ctx["rule"], text, k)
        suf = M.run_parse(_pest, p, ctx["rule"], text[k:], 0)
        if suf.get("ok") is True:
            want = {"ok": True, "pairs": shift_pairs(suf["pairs"], k)}
        elif suf.get("ok") is False:
            want = {"ok": False, "fpos": suf["fpos"] + k if suf["fpos"] >= 0 else suf["fpos"]}
        else:
            want = suf
        if at_k != want:
            out.append(("shift", {"mode": mode, "k": k, "at_k": at_k, "suffix_shifted": want}))
        # same suffix behind different prefixes of the same length: other ASCII letters, characters whose case folding /
        # normalisation changes length (a prefix must not even be looked at), line breaks
        for other_prefix in (ctx["alt_prefix"](text[:k]), "\u00df\u0130\ufb01\u1e9e"[:k].ljust(k, "\u00df"), ("\n\r\u2028" * k)[:k]):
            other = other_prefix + text[k:]
            if other != text:
                o2 = M.run_parse(_pest, p, ctx["rule"], other, k)
                if o2 != at_k:
                    out.append(("prefix-consulted", {"mode": mode, "k": k, "text2": other, "at_k": at_k, "with_other_prefix": o2}))
                    break
    return out


def judge_opt(ctx, text, k, expected):
    """C02: every optimizer configuration gives the same success/failure and the same tree as optimizer=None."""
    out = []
    base = M.run_parse(_pest, ctx["parsers"]["interp"], ctx["rule"], text, k)
    base.pop("fpos", None)
    for name, (pi, pg) in ctx["optparsers"].items():
        for how, p in (("interpreted", pi), ("generated", pg)):
            o = M.run_parse(_pest, p, ctx["rule"], text, k)
            o.pop("fpos", None)
            if o != base:
                out.append(("opt", {"passes": name, "how": how, "unoptimized": base, "optimized": o, "expected": expected}))
    return out


def tree_checks(pairs, text, start, rule, names, tags, rule_silent):
    """C06 API-level consistency of one Pairs object; returns (list of problems, token events)."""
    import json as _json  # noqa: PLC0415

    probs = []
    toks = list(pairs.tokens())
    events = [{"e": "B", "lo": start, "hi": len(text)}]
    for t in toks:
        events.append({"e": "S" if type(t).__name__ == "Start" else "E", "r": t.rule.name, "p": t.pos})
    events.append({"e": "F"})
    flat = list(pairs.flatten())
    starts = [(t.rule.name, t.pos) for t in toks if type(t).__name__ == "Start"]
    if [(p.name, p.start) for p in flat] != starts:
        probs.append("flatten() is not the pre-order of tokens()")
    for p in flat:
        if p.text != text[p.start : p.end] or str(p) != p.text or p.as_str() != p.text:
            probs.append(f"pair {p.name} text != input[start:end]")
        if p.name not in names:
            probs.append(f"pair name {p.name!r} is not a non-silent rule of the grammar (or EOI)")
        if p.tag is not None and p.tag not in tags:
            probs.append(f"tag {p.tag!r} is not written in the grammar")
        if not (start <= p.start <= p.end <= len(text)):
            probs.append(f"pair {p.name} span {p.start}..{p.end} outside [{start}, {len(text)}]")
    if not rule_silent and (len(pairs) != 1 or pairs[0].name != rule or pairs[0].start != start):
        probs.append("a non-silent start rule must yield exactly one root pair starting at start_pos")
    try:
        d = pairs.dump()
        ds = pairs.dumps(compact=False)
        pairs.dumps()
        for p in flat:
            p.dumps()
        if _json.loads(ds) != d:
            probs.append("dumps(compact=False) disagrees with dump()")

        def walk(dd, ps):
            if len(dd) != len(ps):
                return False
            return all(
                x["rule"] == p.name and x["span"] == {"str": text[p.start : p.end], "start": p.start, "end": p.end} and x.get("node_tag") == p.tag and walk(x["inner"], p.children)
                for x, p in zip(dd, ps)
            )

        if not walk(d, list(pairs)):
            probs.append("dump() disagrees with the pairs")
    except Exception as e:  # noqa: BLE001
        probs.append(f"dump()/dumps() raised {type(e).__name__}: {e}")
    return probs, events


DOC_BODY = 'a\\u{41} \\x41 \\N{DASH} \\d "double" \'single\' """ {braces} %s #{x} ends with a backslash \\'
DOC_HEAD = f"//! grammar: {DOC_BODY}\n//! \\\n"
_tok_fh = None


def _tok_sink():
    global _tok_fh  # noqa: PLW0603
    if _tok_fh is None:
        d = C.OUT / "traces"
        d.mkdir(parents=True, exist_ok=True)
        _tok_fh = (d / f"c06_tok_{os.getpid()}.ndjson").open("a")
    return _tok_fh


def judge_tree(ctx, text, k, expected):
    """C06: every returned tree is well-formed (tokens are logged for TLC's TokenTrace; API consistency here)."""
    out = []
    g = ctx["g"]
    names = {n for n, r in g.items() if r["mod"] != "_"} | {"EOI"}
    tags = {t["t"] for r in g.values() for t in gast.subterms(r["body"]) if t["k"] == "tag"}
    for mode in ctx["modes"]:
        o = M.run_parse(_pest, ctx["parsers"][mode], ctx["rule"], text, k, keep=True)
        if o.get("ok") is not True:
            continue
        probs, events = tree_checks(o["_pairs"], text, k, ctx["rule"], names, tags, g[ctx["rule"]]["mod"] == "_")
        for pr in probs:
            out.append(("tree", {"mode": mode, "problem": pr}))
        fh = _tok_sink()
        for e in events:
            fh.write(json.dumps(e) + "\n")
        fh.flush()
    return out


_RE_LC = re.compile(r" -> (.*?) ?(-?\d+):(-?\d+)\n")
_RE_SRC = re.compile(r"\n(\d+) \| (.*)\n")
_err_fh = None
_err_seen: set = set()


def error_checks(err, text, start, names):
    """C13 checks on one PestParsingError; returns (problems, event-for-TLC or None)."""
    probs = []
    st = err.state
    p = st.furthest_pos
    if not (p == -1 or start <= p <= len(text)):
        probs.append(f"furthest_pos {p} outside [{start}, {len(text)}] and not the sentinel")
    for what, d in (("expected", st.furthest_expected), ("unexpected", st.furthest_unexpected)):
        for name in d:
            if name not in names:
                probs.append(f"{what} set names {name!r}, which is neither a rule of the grammar nor a built-in")
    for fr in st.furthest_stack:
        if fr.name not in names:
            probs.append(f"rule stack names {fr.name!r}, which is neither a rule of the grammar nor a built-in")
    ev = None
    try:
        s1 = str(err)
        s2 = err.detailed_message()
        repr(err)
        if not isinstance(s1, str) or not isinstance(s2, str):
            probs.append("str()/detailed_message() did not return a string")
        elif p != -1:
            m, m2 = _RE_LC.search(s2), _RE_SRC.search(s2)
            if not m or not m2:
                probs.append("message does not show a line:column and a source line")
            else:
                ev = {"text": [ord(c) for c in text], "start": start, "p": p, "line": int(m[2]), "col": int(m[3]), "shown": [ord(c) for c in m2[2]]}
                if int(m2[1]) != int(m[2]):
                    probs.append("line number of the source line shown differs from the line:column shown")
    except Exception as e:  # noqa: BLE001
        probs.append(f"rendering the error raised {type(e).__name__}: {e}")
    return probs, ev


def _err_sink():
    global _err_fh  # noqa: PLW0603
    if _err_fh is None:
        d = C.OUT / "traces"
        d.mkdir(parents=True, exist_ok=True)
        _err_fh = (d / f"c13_err_{os.getpid()}.ndjson").open("a")
    return _err_fh


def judge_err(ctx, text, k, expected):
    """C13: every failure carries a valid position, known rule names and a message that renders (line:col via TLC)."""
    out = []
    if "names13" not in ctx:
        ctx["names13"] = set(ctx["g"]) | set(_pest.Parser.BUILTIN)  # the optimizer's synthetic SKIP rule is not a rule of the grammar
    for mode in ctx["modes"]:
        o = M.run_parse(_pest, ctx["parsers"][mode], ctx["rule"], text, k, keep=True)
        if o.get("ok") is not False:
            continue
        probs, ev = error_checks(o["_err"], text, k, ctx["names13"])
        for pr in probs:
            out.append(("error", {"mode": mode, "fpos": o["fpos"], "problem": pr}))
        if ev is not None:
            key = (text, ev["p"], ev["line"], ev["col"], tuple(ev["shown"]))
            if key not in _err_seen:
                _err_seen.add(key)
                fh = _err_sink()
                fh.write(json.dumps(ev) + "\n")
                fh.flush()
    return out


JUDGES = {"err": judge_err, "tree": judge_tree, "opt": judge_opt, "sem": judge_sem, "total": judge_total, "geninterp": judge_geninterp, "shift": judge_shift}


# ------------------------------------------------------------------------------------ worker


def process_lines(args):
    lines, cfg = args
    res = {
        "grammars": 0,
        "cases": 0,
        "nontrivial": 0,
        "frontend_skipped": 0,
        "viol": [],
        "nviol": 0,
        "kinds": Counter(),
        "okfail": Counter(),
        "sample": None,
        "build_fail": [],
    }
    judge = JUDGES[cfg["judge"]]
    hook = cfg.get("classify")
    work = []
    for line in lines:
        rec = C.decode_printt(line)
        style = cfg.get("style", "alt")
        if style == "alt":  # alternate between the two printers, deterministically per grammar
            style = "min" if (zlib.crc32(line.encode()) & 1) else "full"
        for st_ in (("full", "min") if style == "both" else (style,)):
            work.append((rec, st_))
    for rec, style in work:
        g = rec["g"]
        gtext = gast.print_grammar(g, style=style)
        res["grammars"] += 1
        # round-trip guard: the front end must have built the intended AST (else it is C10's business)
        try:
            base = _pest.Parser.from_grammar(gtext, optimizer=None)
            built = gast.export_rules(base, _pest)
        except Exception as e:  # noqa: BLE001
            res["frontend_skipped"] += 1
            res["build_fail"].append({"grammar": gtext, "error": f"{type(e).__name__}: {e}"[:200]})
            continue
        if gast.norm(built) != gast.norm(g):
            res["frontend_skipped"] += 1
            res["build_fail"].append({"grammar": gtext, "error": "front end built a different AST", "built": built})
            continue
        ctx = {"rule": cfg.get("rule", "r"), "modes": cfg["modes"], "parsers": {}, "g": g, "alt_prefix": lambda s: "".join("b" if ch != "b" else "a" for ch in s)}
        try:
            # the generated module comes from the SAME Parser object the interpreter runs (C01's statement); every other grammar
            # is loaded with debug=True (a documented keyword: the optimizer then logs - and str()s - what it rewrites); every
            # third grammar carries doc comments full of characters that mean something inside a Python string literal
            dbg = res["grammars"] % 2 == 0
            text_for_build = DOC_HEAD + "".join(f"/// rule {i}: {DOC_BODY}\n{ln}\n" for i, ln in enumerate(gtext.splitlines())) if res["grammars"] % 3 == 0 else gtext
            bases = {}
            for mode in cfg["build_modes"]:
                bk = "opt" if mode in ("opt", "optgen") else "interp"
                if bk not in bases:
                    with M.watchdog(30):
                        bases[bk] = _pest.Parser.from_grammar(text_for_build, optimizer=M.optimizer_for(_pest) if bk == "opt" else None, debug=dbg and bk == "opt")
                ctx["parsers"][mode] = M.Generated(bases[bk].generate()) if mode in ("gen", "optgen") else bases[bk]
        except Exception as e:  # noqa: BLE001
            res["nviol"] += 1
            if len(res["viol"]) < 10:
                res["viol"].append({"kind": "build", "grammar": gtext, "detail": {"error": f"{type(e).__name__}: {e}"[:300]}})
            continue
        if cfg.get("opt_cfgs"):
            ctx["optparsers"] = {}
            bad = False
            for passes in cfg["opt_cfgs"]:
                name = "+".join(passes) if passes else "(none)"
                try:
                    po = _pest.Parser.from_grammar(gtext, optimizer=M.optimizer_for(_pest, passes))
                    ctx["optparsers"][name] = (po, M.Generated(po.generate()))
                except Exception as e:  # noqa: BLE001
                    res["nviol"] += 1
                    bad = True
                    if len(res["viol"]) < VIOL_CAP:
                        res["viol"].append({"kind": "opt-build", "grammar": gtext, "detail": {"passes": name, "error": f"{type(e).__name__}: {e}"[:300]}})
            if bad:
                continue
        for kd in gast.kinds(g):
            res["kinds"][kd] += 1
        if cfg.get("gen_twice"):
            for mode in ("interp", "opt"):
                try:
                    _, base_p = M.build(_pest, gtext, mode)
                    s1, s2 = base_p.generate(), base_p.generate()
                    if s1 != s2:
                        res["nviol"] += 1
                        res["viol"].append({"kind": "gen-nondeterministic", "grammar": gtext, "detail": {"mode": mode}})
                    _, other = M.build(_pest, gtext, mode)
                    if other.generate() != s1:
                        res["nviol"] += 1
                        res["viol"].append({"kind": "gen-differs-between-equal-parsers", "grammar": gtext, "detail": {"mode": mode}})
                except Exception as e:  # noqa: BLE001
                    res["nviol"] += 1
                    res["viol"].append({"kind": "generate-raised", "grammar": gtext, "detail": {"mode": mode, "error": f"{type(e).__name__}: {e}"[:300]}})
        t0 = M.TIMEOUTS
        for cps, k, expected in rec["cases"]:
            if M.TIMEOUTS - t0 >= 3 or M.TIMEOUTS >= 60:
                # a parser that hangs (each hang is a reported violation and costs the watchdog's 5 s): its remaining cases,
                # and after 60 hangs in this worker everything else, are skipped and counted
                res["skipped_after_hangs"] = res.get("skipped_after_hangs", 0) + 1
                continue
            text = text_of(cps)
            res["cases"] += 1
            if expected != 0:
                res["nontrivial"] += 1
                res["okfail"]["ok"] += 1
            else:
                res["okfail"]["fail"] += 1
            for kind, detail in judge(ctx, text, k, expected):
                res["nviol"] += 1
                if len(res["viol"]) < VIOL_CAP:
                    res["viol"].append({"kind": kind, "grammar": gtext, "rule": ctx["rule"], "input": text, "start": k, "detail": detail})
        if res["sample"] is None and rec["cases"]:
            cps, k, expected = rec["cases"][len(rec["cases"]) // 2]
            res["sample"] = {"grammar": gtext, "input": text_of(cps), "start": k, "reference_outcome": expected}
    return res


# ------------------------------------------------------------------------------------ driver


def write_cfg(name: str, consts: dict, invariants) -> str:
    p = C.OUT / "cfg"
    p.mkdir(parents=True, exist_ok=True)
    f = p / f"{name}.cfg"
    lines = ["SPECIFICATION Spec", "CONSTANTS"]
    for k, v in consts.items():
        lines.append(f"  {k} = {json.dumps(v) if isinstance(v, str) else v}")
    lines += [f"INVARIANT {i}" for i in invariants]
    lines.append("CHECK_DEADLOCK FALSE")
    f.write_text("\n".join(lines) + "\n")
    return str(f)


def enumerate_grammars(rep: C.Report, family: str, sample: int) -> list[dict]:
    """The GAST grammars of a family (TLC-enumerated, seeded sample), without replay."""
    cfgf = write_cfg(f"{rep.prop}_enum_{family}_{sample}", {"Family": family, "MaxLen": 0, "Starts": "zero", "Sample": sample}, ["Emit"])
    out = []
    st = C.run_tlc("Families", cfgf, on_line=lambda ln: out.append(C.decode_printt(ln)["g"]), workers=2, extra=["-seed", str(C.SEED + 1)], tag=f"{rep.prop}_enum_{family}", xss="512m")
    C.require_tlc_ok(st, f"Families enumerate {family}")
    rep.add_tlc(st, f"Families[{family}] grammars for sentence rendering")
    return out


def run_family(rep: C.Report, fam: dict, judge: str, modes, build_modes=None, nproc=None, classify=None, module="Families", batch=8):
    """fam: {"Family","MaxLen","Starts","Sample", "workers", "invariants"}"""
    build_modes = build_modes or modes
    label = f"{fam['Family']}_L{fam['MaxLen']}_{fam['Starts']}_{fam.get('Sample', 0)}"
    cfgf = write_cfg(
        f"{rep.prop}_{label}",
        {"Family": fam["Family"], "MaxLen": fam["MaxLen"], "Starts": fam["Starts"], "Sample": fam.get("Sample", 0)},
        list(fam.get("invariants", ["RefTreeWF", "RefSingleRoot"])) + ["Emit"],
    )
    cfg = {"judge": judge, "modes": list(modes), "build_modes": list(build_modes), "classify": classify, "gen_twice": bool(fam.get("gen_twice")), "opt_cfgs": fam.get("opt_cfgs"), "style": fam.get("style", "alt")}
    nproc = nproc or max(2, C.NCPU - int(fam.get("workers", 4)))
    pool = mp.get_context("fork").Pool(nproc, initializer=_init_worker)
    pending = []
    buf: list[str] = []
    totals = {"grammars": 0, "cases": 0, "nontrivial": 0, "frontend_skipped": 0, "nviol": 0}
    kinds: Counter = Counter()
    okfail: Counter = Counter()

    def flush():
        nonlocal buf
        if buf:
            pending.append(pool.apply_async(process_lines, ((buf, cfg),)))
            buf = []

    def on_line(line):
        buf.append(line)
        if len(buf) >= batch:
            flush()

    t0 = time.time()
    st = C.run_tlc(module, cfgf, on_line=on_line, workers=fam.get("workers", 4), extra=["-seed", str(C.SEED + 1)], tag=f"{rep.prop}_{label}", xss="512m")
    flush()
    C.require_tlc_ok(st, f"{module} {label}")
    rep.add_tlc(st, f"{module}[{label}]")
    build_fail = []
    for p in pending:
        r = p.get(timeout=3600)
        for k in totals:
            totals[k] += r[k]
        kinds.update(r["kinds"])
        okfail.update(r["okfail"])
        build_fail += r["build_fail"][:2]
        if r.get("skipped_after_hangs"):
            rep.extra["cases_skipped_after_hangs"] = rep.extra.get("cases_skipped_after_hangs", 0) + r["skipped_after_hangs"]
        if r["sample"]:
            rep.sample(r["sample"])
        for v in r["viol"]:
            handled = False
            if rep.classifier is not None:
                kf = rep.classifier(v)
                if kf:
                    rep.known_finding(kf, f"{v['grammar'].strip()!r} on {v.get('input')!r} mode={v['detail'].get('mode', v['detail'].get('modes'))}")
                    handled = True
            if not handled:
                rep.violation(v, f"{v['kind']}: grammar {v['grammar'].strip()!r} input {v.get('input')!r} start={v.get('start')} {json.dumps(v['detail'], default=str)[:400]}")
        # violations beyond the per-batch cap are counted
        extra = r["nviol"] - len(r["viol"])
        if extra > 0:
            rep.extra["violations_not_written_out"] = rep.extra.get("violations_not_written_out", 0) + extra
            if rep.classifier is None:
                for _ in range(extra):
                    rep.violations.append({"summary": "(not written out)"})
    pool.close()
    pool.join()
    if totals["grammars"] == 0:
        raise C.MachineryError(f"family {label} emitted nothing")
    if totals["frontend_skipped"] > totals["grammars"] * 0.2:
        raise C.MachineryError(f"family {label}: front end refused/misbuilt {totals['frontend_skipped']} of {totals['grammars']} printed grammars, e.g. {build_fail[:2]}")
    rep.traces += totals["cases"]
    rep.evaluations += totals["cases"] * len(modes)
    rep.distinct_count += totals["nontrivial"]
    fams = rep.extra.setdefault("families", {})
    fams[label] = {**totals, "node_kinds": dict(kinds), "reference_ok": okfail["ok"], "reference_fail": okfail["fail"], "wall_s": round(time.time() - t0, 1)}
    if build_fail:
        rep.extra.setdefault("frontend_skipped_examples", []).extend(build_fail[:3])
    return totals
