"""GAST: the JSON form of the PestAst terms used by spec/PestSem.tla.

print_grammar : GAST grammar  -> pest grammar text (every operand parenthesised)
export_rules  : Parser.rules  -> GAST grammar (what the front end actually built)
"""

from __future__ import annotations

ASCII_CLASSES = {
    "ASCII_DIGIT", "ASCII_NONZERO_DIGIT", "ASCII_BIN_DIGIT", "ASCII_OCT_DIGIT", "ASCII_HEX_DIGIT", "ASCII_ALPHA_LOWER",
    "ASCII_ALPHA_UPPER", "ASCII_ALPHA", "ASCII_ALPHANUMERIC", "ASCII",
}
BUILTINS_AS_RULES = False  # export NEWLINE / ASCII_* as references to silent rules (see builtin_rule_defs) instead of terminals
CHARSET: set[int] = set()  # set by the caller before exporting grammars that use Unicode property rules

UNARY = {"opt", "star", "plus", "exact", "min", "max", "minmax", "and", "not", "push", "tag", "grp"}
NARY = {"seq", "alt"}


def lit(cps, quote='"') -> str:
    out = []
    for cp in cps:
        ch = chr(cp)
        if ch == "\\":
            out.append("\\\\")
        elif ch == quote:
            out.append("\\" + quote)
        elif 32 <= cp < 127:
            out.append(ch)
        elif cp == 10:
            out.append("\\n")
        elif cp == 13:
            out.append("\\r")
        elif cp == 9:
            out.append("\\t")
        else:
            out.append("\\u{%04X}" % cp)
    return quote + "".join(out) + quote


def pe(e) -> str:  # noqa: PLR0911, PLR0912
    k = e["k"]
    if k == "str":
        return lit(e["s"])
    if k == "istr":
        return "^" + lit(e["s"])
    if k == "range":
        return f"{lit([e['lo']], chr(39))}..{lit([e['hi']], chr(39))}"
    if k == "cls":
        return e["n"]
    if k == "any":
        return "ANY"
    if k == "soi":
        return "SOI"
    if k == "eoi":
        return "EOI"
    if k == "ref":
        return e["n"]
    if k == "seq":
        return "(" + " ~ ".join(pe(x) for x in e["es"]) + ")"
    if k == "alt":
        return "(" + " | ".join(pe(x) for x in e["es"]) + ")"
    if k == "opt":
        return f"({pe(e['e'])})?"
    if k == "star":
        return f"({pe(e['e'])})*"
    if k == "plus":
        return f"({pe(e['e'])})+"
    if k == "exact":
        return f"({pe(e['e'])}){{{e['n']}}}"
    if k == "min":
        return f"({pe(e['e'])}){{{e['n']},}}"
    if k == "max":
        return f"({pe(e['e'])}){{,{e['n']}}}"
    if k == "minmax":
        return f"({pe(e['e'])}){{{e['m']},{e['n']}}}"
    if k == "and":
        return f"&({pe(e['e'])})"
    if k == "not":
        return f"!({pe(e['e'])})"
    if k == "push":
        return f"PUSH({pe(e['e'])})"
    if k == "pushlit":
        return f"PUSH_LITERAL({lit(e['s'])})"
    if k == "peek":
        return "PEEK"
    if k == "pop":
        return "POP"
    if k == "drop":
        return "DROP"
    if k == "peekall":
        return "PEEK_ALL"
    if k == "popall":
        return "POP_ALL"
    if k == "peekslice":
        a = str(e["a"]) if e["ha"] else ""
        b = str(e["b"]) if e["hb"] else ""
        return f"PEEK[{a}..{b}]"
    if k == "tag":
        return f"#{e['t']} = {pe(e['e'])}"
    if k == "grp":
        return f"({pm(e['e'], 1)})"
    if k == "cset":
        return e["n"]
    raise ValueError(k)


_POSTFIX = {"opt": "?", "star": "*", "plus": "+"}
_BOUNDED = {"opt", "star", "plus", "exact", "min", "max", "minmax"}


def pm(e, ctx: int = 1) -> str:
    """Minimal-parenthesis printer (alt < seq < prefix < postfix < atom); structure is preserved exactly."""
    k = e["k"]
    if k == "alt":
        s, p = " | ".join(pm(x, 2) for x in e["es"]), 1
    elif k == "seq":
        s, p = " ~ ".join(pm(x, 3) for x in e["es"]), 2
    elif k in ("and", "not"):
        s, p = ("&" if k == "and" else "!") + pm(e["e"], 5), 3
    elif k in _BOUNDED and e["e"]["k"] == "tag":
        # the other spelling of a tagged operand: "#t = (x)+" puts the tag on the group (same GAST as "(#t = x)+", which pe prints)
        suffix = _POSTFIX.get(k) or {"exact": f"{{{e.get('n')}}}", "min": f"{{{e.get('n')},}}", "max": f"{{,{e.get('n')}}}", "minmax": f"{{{e.get('m')},{e.get('n')}}}"}[k]
        s, p = f"#{e['e']['t']} = ({pm(e['e']['e'], 1)}){suffix}", 3
    elif k in _POSTFIX:
        s, p = pm(e["e"], 5) + _POSTFIX[k], 4
    elif k == "exact":
        s, p = pm(e["e"], 5) + f"{{{e['n']}}}", 4
    elif k == "min":
        s, p = pm(e["e"], 5) + f"{{{e['n']},}}", 4
    elif k == "max":
        s, p = pm(e["e"], 5) + f"{{,{e['n']}}}", 4
    elif k == "minmax":
        s, p = pm(e["e"], 5) + f"{{{e['m']},{e['n']}}}", 4
    elif k == "push":
        s, p = f"PUSH({pm(e['e'], 1)})", 5
    elif k == "tag":
        inner = e["e"]
        if inner["k"] in ("seq", "alt"):
            s, p = f"#{e['t']} = ({pm(inner, 1)})", 5
        else:
            s, p = f"#{e['t']} = {pm(inner, 5)}", 5
        p = 3  # a tagged term is a whole term: it needs parentheses under a prefix or postfix operator
    else:
        return pe(e)
    return f"({s})" if p < ctx else s


def print_grammar(g: dict, prefix: str = "", style: str = "full") -> str:
    """g: {rule: {"mod":..., "body":...}} -> grammar text. style: "full" (every operand parenthesised) or "min"."""
    lines = []
    for name in sorted(g):
        r = g[name]
        body = pe(r["body"]) if style == "full" else pm(r["body"], 1)
        lines.append(f"{prefix}{name} = {r['mod']}{{ {body} }}")
    return "\n".join(lines) + "\n"


# ------------------------------------------------------------------------------------ exporter


def export_expr(x, pest_mod):  # noqa: PLR0911, PLR0912
    G = pest_mod
    from pest.grammar import expressions as E  # noqa: PLC0415
    from pest.grammar.expressions import terminals as T  # noqa: PLC0415
    from pest.grammar.rule import BuiltInRule  # noqa: PLC0415
    from pest.grammar.rules.special import EOI, SOI, Any  # noqa: PLC0415

    def cps(s):
        return [ord(c) for c in s]

    def wrap(node, out):
        tag = getattr(node, "tag", None)
        return {"k": "tag", "t": tag, "e": out} if tag else out

    if isinstance(x, E.Group):
        inner = export_expr(x.expression, G)
        return wrap(x, inner)
    if isinstance(x, T.String):
        return {"k": "str", "s": cps(x.value)}
    if isinstance(x, T.CIString):
        return wrap(x, {"k": "istr", "s": cps(x.value)})
    if isinstance(x, T.Range):
        return wrap(x, {"k": "range", "lo": ord(x.start), "hi": ord(x.stop)})
    if isinstance(x, Any):
        return {"k": "any"}
    if isinstance(x, SOI):
        return {"k": "soi"}
    if isinstance(x, EOI):
        return {"k": "eoi"}
    if isinstance(x, BuiltInRule):
        if BUILTINS_AS_RULES and (x.name == "NEWLINE" or x.name in ASCII_CLASSES):
            return {"k": "ref", "n": x.name}  # the silent rule it is at run time (PestVM: rule stack depth, inner checkpoints)
        if x.name == "NEWLINE":
            return {"k": "alt", "es": [{"k": "str", "s": [10]}, {"k": "str", "s": [13, 10]}, {"k": "str", "s": [13]}]}
        if x.name in ASCII_CLASSES:
            return {"k": "cls", "n": x.name}
        # Unicode property rule: opaque in the specification; its extension over the characters that
        # can occur (CHARSET) is computed with the regex library directly (third party, trusted)
        rx = x.expression.regex
        return {"k": "cset", "n": x.name, "cs": sorted(c for c in CHARSET if rx.fullmatch(chr(c)))}
    if isinstance(x, T.Identifier):
        if x.value == "EOI":
            return wrap(x, {"k": "eoi"})
        return wrap(x, {"k": "ref", "n": x.value})
    if isinstance(x, E.Sequence):
        return {"k": "seq", "es": [export_expr(c, G) for c in x.expressions]}
    if isinstance(x, E.Choice):
        return {"k": "alt", "es": [export_expr(c, G) for c in x.expressions]}
    if isinstance(x, E.Optional):
        return {"k": "opt", "e": export_expr(x.expression, G)}
    if isinstance(x, E.Repeat):
        return {"k": "star", "e": export_expr(x.expression, G)}
    if isinstance(x, E.RepeatOnce):
        return {"k": "plus", "e": export_expr(x.expression, G)}
    if isinstance(x, E.RepeatExact):
        return {"k": "exact", "e": export_expr(x.expression, G), "n": x.number}
    if isinstance(x, E.RepeatMin):
        return {"k": "min", "e": export_expr(x.expression, G), "n": x.number}
    if isinstance(x, E.RepeatMax):
        return {"k": "max", "e": export_expr(x.expression, G), "n": x.number}
    if isinstance(x, E.RepeatMinMax):
        return {"k": "minmax", "e": export_expr(x.expression, G), "m": x.min, "n": x.max}
    if isinstance(x, E.PositivePredicate):
        return wrap(x, {"k": "and", "e": export_expr(x.expression, G)})
    if isinstance(x, E.NegativePredicate):
        return wrap(x, {"k": "not", "e": export_expr(x.expression, G)})
    if isinstance(x, T.Push):
        return wrap(x, {"k": "push", "e": export_expr(x.expression, G)})
    if isinstance(x, T.PushLiteral):
        return wrap(x, {"k": "pushlit", "s": cps(x.value)})
    if isinstance(x, T.PeekSlice):
        return wrap(x, {"k": "peekslice", "ha": x.start is not None, "a": x.start or 0, "hb": x.stop is not None, "b": x.stop or 0})
    if isinstance(x, T.Peek):
        return wrap(x, {"k": "peek"})
    if isinstance(x, T.PeekAll):
        return wrap(x, {"k": "peekall"})
    if isinstance(x, T.Pop):
        return wrap(x, {"k": "pop"})
    if isinstance(x, T.PopAll):
        return wrap(x, {"k": "popall"})
    if isinstance(x, T.Drop):
        return wrap(x, {"k": "drop"})
    return {"k": "?" + type(x).__name__}


def builtin_rule_defs(pest_mod) -> dict:
    """NEWLINE and the ASCII_* rules as the silent rules over ranges / choices of ranges that they are in the library."""
    from pest.grammar.rules.ascii import ASCII_RULE_MAP  # noqa: PLC0415

    out = {"NEWLINE": {"mod": "_", "body": {"k": "alt", "es": [{"k": "str", "s": [10]}, {"k": "str", "s": [13, 10]}, {"k": "str", "s": [13]}]}}}
    for name, rs in ASCII_RULE_MAP.items():
        rng = lambda r: {"k": "range", "lo": ord(r[0]), "hi": ord(r[1])}  # noqa: E731
        out[name] = {"mod": "_", "body": rng(rs) if isinstance(rs, tuple) else {"k": "alt", "es": [rng(r) for r in rs]}}
    return out


def export_rules(parser, pest_mod) -> dict:
    from pest.grammar.rule import BuiltInRule, modifier_to_str  # noqa: PLC0415

    out = {}
    for name, r in parser.rules.items():
        if isinstance(r, BuiltInRule):
            continue
        out[name] = {"mod": modifier_to_str(r.modifier), "body": export_expr(r.expression, pest_mod)}
    return out


def norm(e):
    """Normal form for comparing intended and exported GAST (drop nothing: printer is fully parenthesised)."""
    if isinstance(e, dict):
        k = e.get("k")
        if k == "peekslice":
            return {"k": k, "ha": bool(e["ha"]), "a": e["a"] if e["ha"] else 0, "hb": bool(e["hb"]), "b": e["b"] if e["hb"] else 0}
        return {kk: norm(v) for kk, v in e.items()}
    if isinstance(e, list):
        return [norm(v) for v in e]
    return e


def subterms(e):
    yield e
    k = e["k"]
    if k in NARY:
        for x in e["es"]:
            yield from subterms(x)
    elif k in UNARY:
        yield from subterms(e["e"])


def kinds(g: dict) -> set[str]:
    s = set()
    for r in g.values():
        for t in subterms(r["body"]):
            s.add(t["k"])
    return s
