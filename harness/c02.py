"""C02 - optimizer passes never change what a grammar parses.

Relational: Parser.from_grammar(g, optimizer=None) versus Optimizer(cfg) for pass configurations cfg drawn from
DEFAULT_OPTIMIZER_PASSES (default pipeline, each pass alone, ordered pairs, permutations, repetitions), with the optimized
rules both interpreted and generated; same success/failure and same tree (tags included).  Grammars are TLC-enumerated
families aimed at each pass (spec/Families.tla: optsq, optsk, optinl, opttrv) plus the general families.
"""

from __future__ import annotations

import itertools
import random

from . import common as C
from . import replay

PASSES = ["unroll", "skip", "inline built-in", "squash_choice", "inline silent"]


def configs(thorough: bool):
    rnd = random.Random(C.SEED)
    cfgs = [None]  # default pipeline
    cfgs += [[p] for p in PASSES]
    pairs = [list(x) for x in itertools.product(PASSES, repeat=2)]
    if thorough:
        cfgs += pairs
        triples = [list(x) for x in itertools.product(PASSES, repeat=3)]
        cfgs += rnd.sample(triples, 20)
        perms = [list(x) for x in itertools.permutations(PASSES)]
        cfgs += rnd.sample(perms, 12)
        cfgs += [rnd.choices(PASSES, k=rnd.randint(6, 8)) for _ in range(5)]
    else:
        cfgs += pairs  # every ordered pair: a pass can create the shape another pass then mishandles
        perms = [list(x) for x in itertools.permutations(PASSES)]
        cfgs += rnd.sample(perms, 4)
        cfgs += [list(reversed(PASSES)), PASSES + PASSES]
    out, seen = [], set()
    for c in cfgs:
        k = tuple(c) if c is not None else None
        if k not in seen:
            seen.add(k)
            out.append(c)
    return out


def run(tier: str) -> int:
    rep = C.Report("C02", tier)
    rep.distinct = None
    thorough = tier == "thorough"
    cfgs = configs(thorough)
    small = [None] + [[p] for p in PASSES]
    if not thorough:
        fams = [
            {"Family": "optsq", "MaxLen": 3, "Starts": "zero", "Sample": 220, "workers": 3, "opt_cfgs": cfgs},
            {"Family": "optsk", "MaxLen": 4, "Starts": "zero", "Sample": 160, "workers": 3, "opt_cfgs": cfgs},
            {"Family": "optinl", "MaxLen": 3, "Starts": "zero", "Sample": 160, "workers": 3, "opt_cfgs": cfgs},
            {"Family": "opttrv", "MaxLen": 4, "Starts": "zero", "Sample": 100, "workers": 3, "opt_cfgs": cfgs},
            {"Family": "mods", "MaxLen": 4, "Starts": "zero", "Sample": 100, "workers": 3, "opt_cfgs": small},
            {"Family": "stack", "MaxLen": 3, "Starts": "zero", "Sample": 200, "workers": 3, "opt_cfgs": small},
            {"Family": "stack1", "MaxLen": 3, "Starts": "zero", "Sample": 400, "workers": 3, "opt_cfgs": small, "style": "min"},
            {"Family": "core3", "MaxLen": 3, "Starts": "zero", "Sample": 150, "workers": 3, "opt_cfgs": small},
            {"Family": "tags", "MaxLen": 3, "Starts": "zero", "Sample": 200, "workers": 3, "opt_cfgs": small},
            {"Family": "ci", "MaxLen": 3, "Starts": "zero", "Sample": 250, "workers": 3, "opt_cfgs": small, "style": "min"},
            {"Family": "trivfx", "MaxLen": 3, "Starts": "zero", "Sample": 150, "workers": 3, "opt_cfgs": small},
            {"Family": "bounds", "MaxLen": 3, "Starts": "zero", "Sample": 200, "workers": 3, "opt_cfgs": small, "style": "min"},
            {"Family": "sqesc", "MaxLen": 3, "Starts": "zero", "Sample": 300, "workers": 3, "opt_cfgs": small, "style": "min"},
            {"Family": "sqws", "MaxLen": 4, "Starts": "zero", "Sample": 0, "workers": 3, "opt_cfgs": small, "style": "min"},
            {"Family": "sqcls", "MaxLen": 3, "Starts": "zero", "Sample": 250, "workers": 3, "opt_cfgs": small, "style": "min"},
        ]
    else:
        fams = [
            # every grammar of the pass families under the default pipeline and each single pass ...
            {"Family": "optsq", "MaxLen": 4, "Starts": "zero", "Sample": 0, "workers": 8, "opt_cfgs": small},
            {"Family": "optsk", "MaxLen": 4, "Starts": "zero", "Sample": 0, "workers": 8, "opt_cfgs": small},
            {"Family": "optinl", "MaxLen": 4, "Starts": "zero", "Sample": 0, "workers": 8, "opt_cfgs": small},
            {"Family": "opttrv", "MaxLen": 4, "Starts": "zero", "Sample": 0, "workers": 8, "opt_cfgs": small},
            # ... and a large seeded part of each under every configuration (pairs, triples, permutations, repetitions)
            {"Family": "optsq", "MaxLen": 3, "Starts": "zero", "Sample": 1000, "workers": 8, "opt_cfgs": cfgs},
            {"Family": "optsk", "MaxLen": 3, "Starts": "zero", "Sample": 800, "workers": 8, "opt_cfgs": cfgs},
            {"Family": "optinl", "MaxLen": 3, "Starts": "zero", "Sample": 700, "workers": 8, "opt_cfgs": cfgs},
            {"Family": "opttrv", "MaxLen": 3, "Starts": "zero", "Sample": 300, "workers": 8, "opt_cfgs": cfgs},
            {"Family": "mods", "MaxLen": 4, "Starts": "zero", "Sample": 2500, "workers": 8, "opt_cfgs": small},
            {"Family": "stack", "MaxLen": 4, "Starts": "zero", "Sample": 4000, "workers": 8, "opt_cfgs": small},
            {"Family": "core3", "MaxLen": 3, "Starts": "zero", "Sample": 3000, "workers": 8, "opt_cfgs": small},
            {"Family": "tags", "MaxLen": 3, "Starts": "zero", "Sample": 0, "workers": 8, "opt_cfgs": small},
            {"Family": "ci", "MaxLen": 3, "Starts": "zero", "Sample": 0, "workers": 8, "opt_cfgs": small, "style": "min"},
            {"Family": "trivfx", "MaxLen": 3, "Starts": "zero", "Sample": 0, "workers": 8, "opt_cfgs": small},
            {"Family": "bounds", "MaxLen": 3, "Starts": "zero", "Sample": 0, "workers": 8, "opt_cfgs": small, "style": "min"},
            {"Family": "sqesc", "MaxLen": 3, "Starts": "zero", "Sample": 0, "workers": 8, "opt_cfgs": small, "style": "min"},
            {"Family": "sqws", "MaxLen": 4, "Starts": "zero", "Sample": 0, "workers": 8, "opt_cfgs": small, "style": "min"},
            {"Family": "sqcls", "MaxLen": 4, "Starts": "zero", "Sample": 0, "workers": 8, "opt_cfgs": small, "style": "min"},
        ]
    total = 0
    for f in fams:
        if f["Family"].startswith("opt"):
            f["style"] = "min"  # the passes pattern-match on the AST shape the usual spelling produces
        before = rep.evaluations
        replay.run_family(rep, f, "opt", ("interp",), nproc=13)
        total += (rep.evaluations - before) * 2 * len(f["opt_cfgs"])  # each case: every configuration, interpreted and generated
    rep.extra["optimizer_configurations"] = [c if c is not None else "default" for c in cfgs]
    rep.evaluations = total
    rep.rule = (
        "grammar families aimed at each pass (choices of literals/ranges/insensitive literals/classes in every order; (!(x|y) ~ ANY)* and near-misses in atomic and non-atomic rules "
        "with and without trivia; silent rules of each shape referenced in each context; built-ins; trivia bodies that fuse into SKIP) x optimizer configurations x inputs to MaxLen; "
        "a case = (grammar, input); each compared for every configuration, interpreted and generated; non-trivial = reference outcome is a successful parse"
    )
    rep.exhaustive = False
    rep.assumptions = ["relational check against optimizer=None on the same grammar text; failure positions are not compared (the statement asks for outcome and tree)"]
    return rep.finish()
