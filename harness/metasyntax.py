"""The meta-grammar recogniser (TLC: spec/MetaTrace.tla, spec/MetaShort.tla) and the denotation fold.

fold(text, pairs) turns the recogniser's parse tree of a grammar text into the structure the text denotes, in the same GAST
form that gast.export_rules gives for what the front end built.
"""

from __future__ import annotations

import json

from . import common as C
from . import gast

META_JSON = C.SPEC / "MetaGrammar.json"
STACK_WORDS = {"PEEK": "peek", "POP": "pop", "DROP": "drop", "PEEK_ALL": "peekall", "POP_ALL": "popall"}


def check_meta_constant(pest) -> None:
    """The committed constant must equal what the front end builds from tests/grammars/meta.pest today."""
    from . import apitrace  # noqa: PLC0415

    g = apitrace.export_grammar(pest, (C.REPO / "tests/grammars/meta.pest").read_text(), set())
    if gast.norm(g) != gast.norm(json.loads(META_JSON.read_text())):
        raise C.MachineryError("spec/MetaGrammar.json no longer equals the front end's reading of tests/grammars/meta.pest (file or front end changed): re-review and regenerate the constant")


def _recognise_chunk(args):
    idxs, texts, tag, timeout = args
    d = C.OUT / "traces"
    d.mkdir(parents=True, exist_ok=True)
    tf = d / f"meta_{tag}.ndjson"
    with tf.open("w") as fh:
        for t in texts:
            fh.write(json.dumps({"text": [ord(c) for c in t]}) + "\n")
    res: dict[int, dict] = {}

    def on_line(line):
        r = C.decode_printt(line)
        res[r["l"]] = r

    st = C.run_tlc("MetaTrace", C.SPEC / "MetaTrace.cfg", on_line=on_line, workers=1, env={"TRACE_FILE": str(tf), "META_FILE": str(META_JSON)}, tag=f"MetaTrace_{tag}", xss="1g", xmx="3g", timeout=timeout)
    if st.error or len(res) != len(texts):
        raise C.MachineryError(f"MetaTrace could not evaluate {tf} ({len(res)}/{len(texts)}): {st.error}\n" + "\n".join(st.tail[-25:]))
    tf.unlink()
    return idxs, [res[i + 1] for i in range(len(texts))], st


def recognise(texts: list[str], tag: str, timeout: int = 3600, parallel: int = 12) -> tuple[list[dict], C.TlcStats]:
    """-> [{ok, pairs}] per text, from TLC (several TLC processes over chunks balanced by text length)."""
    from concurrent.futures import ThreadPoolExecutor  # noqa: PLC0415

    k = max(1, min(parallel, len(texts) // 20 or 1))
    order = sorted(range(len(texts)), key=lambda i: -len(texts[i]))
    loads = [0] * k
    chunks: list[list[int]] = [[] for _ in range(k)]
    for i in order:
        j = loads.index(min(loads))
        chunks[j].append(i)
        loads[j] += len(texts[i]) + 50
    jobs = [(ch, [texts[i] for i in ch], f"{tag}_{n}", timeout) for n, ch in enumerate(chunks) if ch]
    out: list[dict | None] = [None] * len(texts)
    total = C.TlcStats()
    total.ok = True
    with ThreadPoolExecutor(max_workers=k) as ex:
        for idxs, res, st in ex.map(_recognise_chunk, jobs):
            for i, r in zip(idxs, res):
                out[i] = r
            total.generated += st.generated
            total.distinct += st.distinct
            total.depth = max(total.depth, st.depth)
            total.wall = max(total.wall, st.wall)
    return out, total  # type: ignore[return-value]


# ------------------------------------------------------------------------------------ denotation fold

SIMPLE = {"n": 10, "r": 13, "t": 9, "\\": 92, '"': 34, "'": 39, "0": 0}


def unescape(body: str) -> list[int]:
    out, i = [], 0
    while i < len(body):
        c = body[i]
        if c != "\\":
            out.append(ord(c))
            i += 1
            continue
        e = body[i + 1]
        if e == "x":
            out.append(int(body[i + 2 : i + 4], 16))
            i += 4
        elif e == "u":
            j = body.index("}", i)
            out.append(int(body[i + 3 : j], 16))
            i = j + 1
        else:
            out.append(SIMPLE[e])
            i += 2
    return out


class Fold:
    def __init__(self, text: str, builtins: set[str]):
        self.t = text
        self.builtins = builtins

    def s(self, p):
        return self.t[p[1] : p[2]]

    def grammar(self, pairs):
        rules, docs, pending = {}, [], []
        order = []
        for p in pairs:
            if p[0] == "grammar_doc":
                docs.append(self.s(p[3][-1]) if p[3] else "")
            elif p[0] == "grammar_rule":
                ch = p[3]
                if ch[0][0] == "line_doc":
                    pending.append(self.s(ch[0][3][-1]) if ch[0][3] else "")
                    continue
                name = self.s(ch[0])
                mod = ""
                for c in ch:
                    if c[0].endswith("_modifier"):
                        mod = self.s(c)
                expr = next(c for c in ch if c[0] == "expression")
                rules[name] = {"mod": mod, "body": self.expression(expr), "doc": pending}
                order.append(name)
                pending = []
        return {"rules": rules, "docs": docs, "order": order}

    def expression(self, p):
        alts, cur = [], []
        ch = list(p[3])
        if ch and ch[0][0] == "choice_operator":
            ch = ch[1:]
        for c in ch:
            if c[0] == "term":
                cur.append(self.term(c))
            elif c[0] == "choice_operator":
                alts.append(cur)
                cur = []
        alts.append(cur)
        seqs = [a[0] if len(a) == 1 else {"k": "seq", "es": a} for a in alts]
        return seqs[0] if len(seqs) == 1 else {"k": "alt", "es": seqs}

    def term(self, p):
        ch = list(p[3])
        tag = None
        if ch and ch[0][0] == "tag_id":
            tag = self.s(ch[0])[1:]
            ch = ch[2:]
        prefixes = []
        while ch and ch[0][0] in ("positive_predicate_operator", "negative_predicate_operator"):
            prefixes.append("and" if ch[0][0].startswith("positive") else "not")
            ch = ch[1:]
        # node
        grouped = ch[0][0] == "opening_paren"
        if grouped:
            node = self.expression(ch[1])
            ch = ch[3:]
        else:
            node = self.terminal(ch[0])
            ch = ch[1:]
        if tag is not None:
            # a tag written on a parenthesised term sits on the group, whatever is inside ("grp"); GAST itself has no groups
            node = {"k": "tag", "t": tag, "e": node, **({"grp": True} if grouped else {})}
        for c in ch:
            k = c[0]
            nums = [int(self.s(x)) for x in c[3] if x[0] == "number"]
            if k == "optional_operator":
                node = {"k": "opt", "e": node}
            elif k == "repeat_operator":
                node = {"k": "star", "e": node}
            elif k == "repeat_once_operator":
                node = {"k": "plus", "e": node}
            elif k == "repeat_exact":
                node = {"k": "exact", "e": node, "n": nums[0]}
            elif k == "repeat_min":
                node = {"k": "min", "e": node, "n": nums[0]}
            elif k == "repeat_max":
                node = {"k": "max", "e": node, "n": nums[0]}
            elif k == "repeat_min_max":
                node = {"k": "minmax", "e": node, "m": nums[0], "n": nums[1]}
            else:
                raise ValueError(k)
        for pr in reversed(prefixes):
            node = {"k": pr, "e": node}
        return node

    def string(self, p):
        inner = next(c for c in p[3] if c[0] == "inner_str")
        return unescape(self.s(inner))

    def terminal(self, p):
        k = p[0]
        if k == "_push_literal":
            return {"k": "pushlit", "s": self.string(next(c for c in p[3] if c[0] == "string"))}
        if k == "_push":
            return {"k": "push", "e": self.expression(next(c for c in p[3] if c[0] == "expression"))}
        if k == "peek_slice":
            a = b = None
            seen_op = False
            for c in p[3]:
                if c[0] == "range_operator":
                    seen_op = True
                elif c[0] == "integer":
                    if seen_op:
                        b = int(self.s(c))
                    else:
                        a = int(self.s(c))
            return {"k": "peekslice", "ha": a is not None, "a": a or 0, "hb": b is not None, "b": b or 0}
        if k == "identifier":
            n = self.s(p)
            if n in STACK_WORDS:
                return {"k": STACK_WORDS[n]}
            if n == "ANY":
                return {"k": "any"}
            if n == "SOI":
                return {"k": "soi"}
            if n == "EOI":
                return {"k": "eoi"}
            if n == "NEWLINE":
                return {"k": "alt", "es": [{"k": "str", "s": [10]}, {"k": "str", "s": [13, 10]}, {"k": "str", "s": [13]}]}
            if n in gast.ASCII_CLASSES:
                return {"k": "cls", "n": n}
            if n in self.builtins:
                return {"k": "cset", "n": n, "cs": []}
            return {"k": "ref", "n": n}
        if k == "string":
            return {"k": "str", "s": self.string(p)}
        if k == "insensitive_string":
            return {"k": "istr", "s": self.string(next(c for c in p[3] if c[0] == "string"))}
        if k == "range":
            cs = [c for c in p[3] if c[0] == "character"]
            vals = [unescape(self.s(next(x for x in c[3] if x[0] == "inner_chr"))) for c in cs]
            return {"k": "range", "lo": vals[0][0], "hi": vals[1][0]}
        raise ValueError(k)


def strip_tags(e):
    """(structure without tag nodes, list of tags in pre-order)."""
    tags = []

    def go(x):
        if isinstance(x, dict):
            if x.get("k") == "tag":
                tags.append(x["t"])
                return go(x["e"])
            return {k: go(v) for k, v in x.items()}
        if isinstance(x, list):
            return [go(v) for v in x]
        return x

    return go(e), tags


def taggable(e) -> bool:
    """Can this node carry a tag in python-pest's AST (literals and built-ins cannot; the tag is then dropped - harmless,
    they produce no pair)."""
    return e["k"] not in ("str", "istr", "cls", "cset", "any", "soi", "alt_newline")
