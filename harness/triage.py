"""Development tool: cluster the violations written by a run (out/replays/<prop>/*.json)."""
import json, sys, glob, re
from collections import Counter, defaultdict

def main(prop):
    cl = defaultdict(list)
    for line in open(f"/verif/out/replays/{prop}/all.ndjson"):
        v = json.loads(line)
        g = v.get("grammar", "")
        body = g.split("\n")[0]
        ops = tuple(sorted(set(re.findall(r"\)\?|\)\*|\)\+|\{\d*,?\d*\}|&\(|!\(|PUSH\(|PUSH_LITERAL|PEEK_ALL|POP_ALL|PEEK\[|PEEK|POP|DROP|\^\"|'\.\.'|ASCII_\w+|ANY|SOI|EOI|WHITESPACE|COMMENT", g))))
        d = v.get("detail", {})
        key = (v.get("kind"), d.get("mode") or str(d.get("modes")), ops)
        cl[key].append(v)
    for key, vs in sorted(cl.items(), key=lambda kv: -len(kv[1])):
        v = vs[0]
        print(len(vs), key)
        print("    ", v.get("grammar", "").strip().replace("\n", " ; "), "| input", repr(v.get("input")), "| start", v.get("start"))
        print("    ", json.dumps(v.get("detail"))[:300])

main(sys.argv[1])
