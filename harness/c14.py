"""C14 - Position / Span / Pair line-column utilities agree with the text.

Spec      : spec/LineCol.tla defines LineCol, LineStart, LineEnd; TLC checks offsets <-> (line, column) is a bijection
            (Bijective, Inverse), the step characterisation (Monotone) and LineBounds on every text to the bound.
Spec->code: TLC emits the table for every text over {a, b, \\n} to the bound; the harness compares Position.line_col(),
            line_of(), Span.start_pos/end_pos/split/lines/str, Pair.line_col()/span() on all offsets and all spans.
Code->spec: for seeded long and non-ASCII texts every offset's line_col() is logged in order and TLC validates the log
            against the line/column counter machine (spec/LineColTrace.tla).
"""

from __future__ import annotations

import random

from . import common as C
from . import tracecheck
from .c09 import write_cfg

SYM = {1: "a", 2: "b", 3: "\n"}


ALT_SYMS = [{1: "\x0c", 2: "\r", 3: "\n"}, {1: "\u2028", 2: "\x85", 3: "\n"}, {1: "\x1d", 2: "\x0b", 3: "\n"}, {1: "\U0001f600", 2: "\u0301", 3: "\n"}]


def strip_nl(s: str) -> str:
    return s[:-1] if s.endswith("\n") else s


def check_text(pest, rep, text: str, rows) -> int:
    from pest import Pair, Position, RuleFrame, Span  # noqa: PLC0415

    n = 0
    bad = lambda what, **kw: rep.violation({"kind": "linecol", "text": text, **kw}, f"text {text!r}: {what}")  # noqa: E731
    frame = RuleFrame("x", 0)
    for p, (line, col, ls, le) in enumerate(rows):
        n += 1
        try:
            got = Position(text, p).line_col()
        except Exception as e:  # noqa: BLE001
            bad(f"Position.line_col() at {p} raised {type(e).__name__}: {e}", offset=p)
            continue
        if tuple(got) != (line, col):
            bad(f"Position.line_col() at offset {p} = {tuple(got)}, LineCol = {(line, col)}", offset=p, expected=[line, col], observed=list(got))
        try:
            lo = Position(text, p).line_of()
            if strip_nl(lo) != text[ls:le] or (lo != text[ls:le] and lo != text[ls : le + 1]):
                bad(f"Position.line_of() at offset {p} = {lo!r}, the line containing it is {text[ls:le]!r}", offset=p, expected=text[ls:le], observed=lo)
        except Exception as e:  # noqa: BLE001
            bad(f"Position.line_of() at {p} raised {type(e).__name__}: {e}", offset=p)
    L = len(text)
    for a in range(L + 1):
        for b in range(a, L + 1):
            n += 1
            sp = Span(text, a, b)
            try:
                if str(sp) != text[a:b] or sp.as_str() != text[a:b]:
                    bad(f"str(Span({a},{b})) = {str(sp)!r}", span=[a, b])
                s0, e0 = sp.split()
                if (s0.pos, e0.pos) != (a, b) or sp.start_pos().pos != a or sp.end_pos().pos != b or s0.text != text:
                    bad(f"Span({a},{b}).split()/start_pos()/end_pos() inconsistent", span=[a, b])
                if tuple(s0.line_col()) != tuple(rows[a][:2]) or tuple(e0.line_col()) != tuple(rows[b][:2]):
                    bad(f"Span({a},{b}) positions' line_col disagree with LineCol", span=[a, b])
                pr = Pair(text, a, b, frame)
                if tuple(pr.line_col()) != tuple(rows[a][:2]):
                    bad(f"Pair({a},{b}).line_col() = {pr.line_col()}, LineCol(start) = {rows[a][:2]}", span=[a, b])
                if tuple(pr.span()) != (text, a, b) or str(pr) != text[a:b] or pr.text != text[a:b]:
                    bad(f"Pair({a},{b}).span()/text inconsistent", span=[a, b])
                got_lines = [strip_nl(x) for x in sp.lines()]
                # lines touched: offsets a..b (end inclusive) or a..b-1 (end exclusive); both readings accepted
                def lines_for(last):
                    out, seen = [], set()
                    for q in range(a, last + 1):
                        key = (rows[q][2], rows[q][3])
                        if key not in seen:
                            seen.add(key)
                            out.append(text[key[0] : key[1]])
                    return out
                def no_phantom(ls_):
                    # the empty "line" after a final line break (or of the empty text) has no character: a non-empty span
                    # cannot touch it; for an empty span sitting on it, whether it exists is pinned by no statement
                    # (str.splitlines and pest omit it): both accepted there
                    return ls_[:-1] if ls_ and ls_[-1] == "" and rows[L][2] == L and (b == L) else ls_
                if a == b:
                    cands = [lines_for(b), no_phantom(lines_for(b))]
                else:
                    cands = [no_phantom(lines_for(b)), lines_for(b - 1)]
                ok = got_lines in cands
                # the caller owns what lines() returns: editing that list must not change what the next call returns
                first = sp.lines()
                keep = list(first)
                first.append("edited by the caller")
                if first[:-1] != keep or sp.lines() != keep:
                    bad(f"Span({a},{b}).lines() returns {sp.lines()} after the caller edited the list a previous call had returned ({keep})", span=[a, b])
                if not ok:
                    bad(f"Span({a},{b}).lines() = {got_lines}, lines touched = {lines_for(b)} (or {lines_for(max(a, b - 1))})", span=[a, b], observed=got_lines)
            except Exception as e:  # noqa: BLE001
                bad(f"Span({a},{b}) utilities raised {type(e).__name__}: {e}", span=[a, b])
    return n


def long_texts(rnd: random.Random, thorough: bool):
    alph = ["a", "é", "€", "😀", " ", "\t", "x\n", "\n", "\n", "日本", "́", "z", "\r", "\x0c", "\u2028", "\x85", "\x0b"]
    out = []
    for i in range(6 if not thorough else 30):
        lines = rnd.randint(5, 60 if not thorough else 2000)
        parts = []
        for _ in range(lines):
            parts.append("".join(rnd.choice(alph) for _ in range(rnd.randint(0, 12))))
        t = "\n".join(parts)
        if i % 3 == 0:
            t += "\n"
        if i % 5 == 1:
            t = "\n\n" + t
        out.append(t)
    return out


def run(tier: str) -> int:
    rep = C.Report("C14", tier)
    rep.distinct = None
    pest = C.import_pest()
    thorough = tier == "thorough"
    maxlen = 6 if not thorough else 8
    cfg = write_cfg("LineCol", "Spec", {"MaxLen": maxlen, "Alphabet": "{1, 2, 3}", "NL": 3}, invariants=["Bijective", "Inverse", "Monotone", "LineBounds", "Emit"])
    count = 0
    tables: dict[tuple, list] = {}

    def on_line(line):
        nonlocal count
        rec = C.decode_printt(line)
        tables[tuple(rec["t"])] = rec["rows"]
        text = "".join(SYM[c] for c in rec["t"])
        n = check_text(pest, rep, text, rec["rows"])
        # the two symbols that are not the line break are ORDINARY characters: the same table must hold when they are
        # characters that other conventions treat as line boundaries (str.splitlines does), or astral / combining ones
        for alt in ALT_SYMS:
            if any(c != 3 for c in rec["t"]):
                n += check_text(pest, rep, "".join(alt[c] for c in rec["t"]), rec["rows"])
        count += 1
        rep.evaluations += n
        if len(text) == maxlen and "\n" in text:
            rep.sample({"text": text, "rows[line,col,line_start,line_end] per offset": rec["rows"]}, limit=3)

    st = C.run_tlc("LineCol", cfg, on_line=on_line, workers=4 if not thorough else 8, tag="LineCol")
    C.require_tlc_ok(st, "LineCol")
    rep.add_tlc(st, f"LineCol MaxLen={maxlen}: Bijective, Inverse, Monotone, LineBounds")
    rep.traces += count
    rep.distinct_count += count

    # one temporary text after another (an application reports one position per document and drops the document): build a
    # text, ask for ONE position, drop it, build the next text of the same length, ask for a position at or after the last
    # one - nothing may be carried over from a text that is gone, even if the new one sits at the same address
    from pest import Position as _Position  # noqa: PLC0415

    rnd2 = random.Random(C.SEED + 5)
    keys = [k for k in tables if len(k) >= 3]
    by_len: dict[int, list] = {}
    for k in keys:
        by_len.setdefault(len(k), []).append(k)
    carried = 0
    for _ in range(4000 if not thorough else 40000):
        n = rnd2.choice(list(by_len))
        k1, k2 = rnd2.choice(by_len[n]), rnd2.choice(by_len[n])
        p1 = rnd2.randrange(n + 1)
        p2 = rnd2.randrange(p1, n + 1)
        sym = rnd2.choice([SYM] + ALT_SYMS)
        t1 = "".join(sym[c] for c in k1)
        _Position(t1, p1).line_col()
        del t1
        t2 = "".join(sym[c] for c in k2)
        got = tuple(_Position(t2, p2).line_col())
        want = tuple(tables[k2][p2][:2])
        carried += 1
        if got != want:
            rep.violation({"kind": "linecol-carried-over", "text": t2, "offset": p2, "expected": list(want), "observed": list(got), "previous_text": "".join(sym[c] for c in k1), "previous_offset": p1},
                          f"Position({t2!r}, {p2}).line_col() = {got}, LineCol = {want}, when asked right after a position in another text of the same length that has been dropped")
        del t2
    rep.evaluations += carried
    rep.extra["one_position_per_temporary_text"] = carried

    # a text beyond one MiB (an implementation may switch strategy with size): the block t, whose table TLC supplied, repeated;
    # t ends with a line break, so offset p of copy i lies in line line_t(p) + i * lines_t at the same column
    blocks = [k for k in tables if len(k) >= 5 and k[-1] == 3 and 3 in k[:-1]]
    if blocks:
        kb = rnd2.choice(blocks)
        tb = "".join(SYM[c] for c in kb)
        reps = (1 << 20) // len(tb) + 50
        big = tb * reps
        lines_t = tb.count("\n")
        nbig = 0
        for _ in range(40 if not thorough else 400):
            i = rnd2.randrange(reps)
            for p in range(len(tb)):
                got = tuple(_Position(big, i * len(tb) + p).line_col())
                want = (tables[kb][p][0] + i * lines_t, tables[kb][p][1])
                nbig += 1
                if got != want:
                    rep.violation({"kind": "linecol-big", "block": tb, "copies": reps, "offset": i * len(tb) + p, "expected": list(want), "observed": list(got)},
                                  f"Position(<{tb!r} x {reps}, {len(big)} characters>, {i * len(tb) + p}).line_col() = {got}, LineCol = {want}")
                    break
        got = tuple(_Position(big, len(big)).line_col())
        if got != (1 + reps * lines_t, 1):
            rep.violation({"kind": "linecol-big", "block": tb, "copies": reps, "offset": len(big), "expected": [1 + reps * lines_t, 1], "observed": list(got)}, f"Position(<{len(big)} characters>, end).line_col() = {got}")
        rep.evaluations += nbig
        rep.extra["positions_in_a_text_beyond_one_MiB"] = nbig

    # code -> spec on long and non-ASCII texts
    from pest import Position  # noqa: PLC0415

    rnd = random.Random(C.SEED)
    events = []
    texts = long_texts(rnd, thorough)
    for t in texts:
        for p in range(len(t) + 1):
            try:
                line, col = Position(t, p).line_col()
            except Exception as e:  # noqa: BLE001
                rep.violation({"kind": "linecol-long", "offset": p, "text_prefix": t[:80]}, f"Position.line_col() raised {type(e).__name__} on a long text at {p}")
                line, col = -1, -1
            events.append({"new": 1 if p == 0 else 0, "nl": 1 if p > 0 and t[p - 1] == "\n" else 0, "line": line, "col": col})
    chunk = 60000
    for i in range(0, len(events), chunk):
        # chunks must start at a text boundary: extend to the next "new"
        pass
    # split at text boundaries
    chunks, cur = [], []
    for e in events:
        if e["new"] == 1 and len(cur) >= chunk:
            chunks.append(cur)
            cur = []
        cur.append(e)
    if cur:
        chunks.append(cur)
    for i, ch in enumerate(chunks):
        consumed, total, st2, path = tracecheck.validate("LineColTrace", ch, f"c14_{i}")
        rep.add_tlc(st2, f"LineColTrace ({total} events)")
        if consumed != total:
            e = ch[consumed]
            rep.violation({"kind": "linecol-trace", "trace_file": path, "rejected_event_index": consumed, "event": e, "previous": ch[max(0, consumed - 3) : consumed]}, f"line_col() log of a long text rejected by LineColTrace at event {consumed}: {e} after {ch[max(0, consumed - 2):consumed]}")
    rep.traces += len(texts)
    rep.evaluations += len(events)
    rep.extra["long_texts"] = len(texts)
    rep.extra["long_text_offsets_validated"] = len(events)
    rep.exhaustive = True
    rep.rule = f"all texts over {{a, b, \\n}} up to length {maxlen} x all offsets x all spans a<=b (TLC-enumerated, exhaustive); plus {len(texts)} seeded long/non-ASCII texts, every offset, validated by TLC as a trace; distinct = one per text"
    rep.assumptions = ["texts use \\n as the only line break (no \\r, \\x0b, \\x0c, \\x1c-\\x1e, \\x85, \\u2028, \\u2029), as the statement says", "Span.lines(): end offset inclusive or exclusive both accepted; line_of()/lines() may keep the trailing \\n"]
    return rep.finish()
