"""./check replay <file> - re-execute the case recorded in a VIOLATION replay file against /repo's current tree.

The file carries the case and, where the oracle's expectation is part of the case (TLC's reference outcome, the reference
history), that expectation; the replay re-runs the library on the case and prints what it returns now next to it.  Exit 1 = the
recorded disagreement is still there, 0 = the library now returns the recorded expectation (or the kind of case carries no
expectation and the observation is only printed: re-run the property's check for a verdict), 2 = the file cannot be replayed."""

from __future__ import annotations

import json

from . import common as C
from . import modes as M


def _strip_tags(pairs):
    return [[p[0], p[1], p[2], _strip_tags(p[4])] for p in pairs]


def _parse_case(pest, rec) -> int:
    g, rule, text, start = rec["grammar"], rec["rule"], rec["input"], rec.get("start", 0)
    detail = rec.get("detail") or {}
    expected = detail.get("expected", rec.get("expected"))
    print(f"grammar:\n{g}\nrule {rule!r} input {text!r} start_pos={start}")
    if expected is not None:
        print("reference (TLC, PestSem):", json.dumps(expected))
    differs = False
    seen = {}
    for mode in M.MODES:
        try:
            p, _ = M.build(pest, g, mode)
        except Exception as e:  # noqa: BLE001
            print(f"  [{mode}] build failed: {type(e).__name__}: {e}")
            differs = True
            continue
        o = M.run_parse(pest, p, rule, text, start)
        seen[mode] = o
        print(f"  [{mode}] {json.dumps(o)}")
        if expected is not None:
            if expected == 0 or expected is False:
                differs |= o.get("ok") is not False
            elif isinstance(expected, list):
                differs |= not (o.get("ok") is True and _strip_tags(o["pairs"]) == expected)
    if expected is None:
        vals = [json.dumps(v, sort_keys=True) for v in seen.values()]
        differs = len(set(vals)) > 1
        print("no reference outcome in the file: the four modes", "disagree" if differs else "agree")
    return 1 if differs else 0


def _history_case(pest, rec) -> int:
    from . import c09  # noqa: PLC0415

    obj = rec["object"]
    if obj == "DeltaGraph":
        from pest.stack import Stack  # noqa: PLC0415

        s = Stack()
        got = None
        for op, v in rec["ops"]:
            try:
                s.push(v) if op == "push" else getattr(s, op)()
                got = list(s)
            except Exception as e:  # noqa: BLE001
                got = f"raised {type(e).__name__}"
                break
        print(f"Stack after {rec['ops']}: {got}; model (= full copies): {rec.get('expected')}")
        return 1 if got != rec.get("expected") else 0
    driver = {"StackHist": c09.drive_stack, "IntHist": c09.drive_int, "StateHist": c09.drive_state}.get(obj)
    if driver is None:
        raise C.MachineryError(f"unknown history object {obj}")
    bad = driver(pest, {"ops": rec["ops"], "exp": rec["expected"]})
    print(f"{obj}: {' '.join(rec['ops'])}: {'agrees with the reference history' if bad is None else bad[1]}")
    return 0 if bad is None else 1


def _text_case(pest, rec) -> int:
    from . import frontend  # noqa: PLC0415

    text = rec["text"]
    print(f"grammar text {text!r}")
    frontend._init()
    for key, o in frontend.observe_load(text).items():
        print(f"  from_grammar({key}) -> {json.dumps({k: v for k, v in o.items() if k != 'rules'}, default=str)[:600]}")
        if "rules" in o:
            print("    built:", json.dumps(o["rules"], default=str)[:600])
    print(f"recorded: {rec['summary'][:400]}\n(no verdict: re-run ./check {rec['property']} for one)")
    return 0


def run(path: str) -> int:
    try:
        rec = json.loads(open(path).read())
    except Exception as e:  # noqa: BLE001
        raise C.MachineryError(f"cannot read {path}: {e}") from e
    pest = C.import_pest()
    print(f"property {rec.get('property')}: {rec.get('summary', '')[:300]}")
    if rec.get("kind") == "history":
        rc = _history_case(pest, rec)
    elif isinstance(rec.get("grammar"), str) and "=" in rec["grammar"] and "rule" in rec and "input" in rec:
        rc = _parse_case(pest, rec)
    elif isinstance(rec.get("text"), str) and rec.get("kind") in ("valid-rejected", "invalid-accepted", "structure", "not-total", "unrenderable", "position"):
        rc = _text_case(pest, rec)
    else:
        print(json.dumps(rec, indent=1)[:3000])
        print(f"(this kind of case is not re-executed on its own: re-run ./check {rec.get('property')} for a verdict)")
        rc = 0
    if rc == 1:
        print(f"VIOLATION property={rec.get('property')} replay={path}")
    return rc
