"""C01 - the generated module is observationally identical to the interpreter.

Relational: for every TLC-enumerated grammar (all families: core operators, trivia configurations, modifier
chains, stack operations, tags) and every input/start position the same Parser is run interpreted and through
exec(generate()), with the optimizer off and on; trees (including tags) or furthest-failure positions must be
equal.  generate() is called twice and on an equal second Parser (byte-identical), and must compile and exec -
also for ill-formed grammars that are never run (left recursion, nullable repetition).
"""

from __future__ import annotations

from . import common as C
from . import modes as M
from . import replay

ILL_FORMED = [
    'r = { r ~ "a" | "a" }',
    'r = { ("a"?)* }',
    'r = { (!"a")+ ~ s }\ns = { s }',
    'r = { "a"{0} ~ "b"{,0} }',
    'r = { PEEK[5..2] ~ PEEK[-7..] ~ undefined_rule }',
    'r = _{ #t1 = (r | "a") }\nWHITESPACE = { r }\nCOMMENT = ${ WHITESPACE }',
    'r = @{ "\\u{10FFFF}" ~ \'\\u{0}\'..\'\\u{10FFFF}\' ~ ^"K" ~ "\\"" ~ "\\\\" ~ "\'" }',
]


def generation_only(rep, pest):
    n = 0
    for g in ILL_FORMED:
        for opt in (False, True):
            n += 1
            try:
                p = pest.Parser.from_grammar(g, optimizer=M.optimizer_for(pest) if opt else None)
            except pest.PestGrammarError:
                continue
            except Exception as e:  # noqa: BLE001  (the loader's totality is C11's business)
                rep.extra.setdefault("illformed_load_errors", []).append(f"{g!r}: {type(e).__name__}")
                continue
            try:
                s1 = p.generate()
                s2 = p.generate()
                M.Generated(s1)
                if s1 != s2:
                    rep.violation({"kind": "gen-nondeterministic", "grammar": g, "optimized": opt}, f"generate() twice differs for {g!r}")
            except Exception as e:  # noqa: BLE001
                rep.violation({"kind": "generate/compile", "grammar": g, "optimized": opt, "error": f"{type(e).__name__}: {e}"}, f"generated source for {g!r} (optimized={opt}) does not generate/compile/import: {type(e).__name__}: {e}")
    rep.extra["ill_formed_generation_only"] = n
    rep.evaluations += n
    # deep nesting: the interpreter loads and runs these; the generated source must compile too
    deep = {}
    for op, shape in (("*", '({} ~ "b")*'), ("?", '({} ~ "b")?'), ("|", '({} | "b")'), ("+", '({} ~ "b")+'), ("{2}", '({} ~ "b"){{2}}'), ("&", '&({} ~ "b")'), ("PUSH", 'PUSH({} ~ "b")')):
        for d in (8, 16, 20, 21, 24, 32, 48, 64, 96):
            if op in ("+", "{2}") and d > 8:
                continue  # e+ and e{2} are their unrolled sequences: nesting them doubles the term at every level
            e = '"a"'
            for _ in range(d):
                e = shape.format(e)
            g = f"r = {{ {e} }}"
            for opt in (False, True):
                try:
                    p = pest.Parser.from_grammar(g, optimizer=M.optimizer_for(pest) if opt else None)
                    with M.watchdog(60):
                        M.Generated(p.generate())
                except Exception as e2:  # noqa: BLE001
                    msg = f"{type(e2).__name__}: {e2}"
                    if isinstance(e2, SyntaxError) and "too many statically nested blocks" in msg and d > 20 and op == "*":
                        # CPython allows 20 statically nested loops / with blocks in one function
                        rep.known_finding("gen-nested-loops", f"{d} nested ({op}) groups, optimized={opt}: {msg[:120]}")
                    elif isinstance(e2, IndentationError) and "too many levels of indentation" in msg and d >= 32:
                        # CPython's tokenizer allows 100 indentation levels; every nested operator costs the generator two or more
                        rep.known_finding("gen-deep-indentation", f"{d} nested ({op}) groups, optimized={opt}: {msg[:120]}")
                    else:
                        rep.violation({"kind": "generate/compile", "grammar": g, "optimized": opt, "error": msg[:300]}, f"generated source for {d} nested '{op}' groups (optimized={opt}) does not generate/compile/import: {msg[:200]}")
                deep[f"{op}x{d}"] = True
    rep.extra["deep_nesting_probes"] = len(deep) * 2
    rep.evaluations += len(deep) * 2


def run(tier: str) -> int:
    rep = C.Report("C01", tier)
    rep.distinct = None
    pest = C.import_pest()
    thorough = tier == "thorough"
    modes = ("interp", "gen", "opt", "optgen")
    if not thorough:
        fams = [
            {"Family": "core2", "MaxLen": 3, "Starts": "all", "Sample": 250, "workers": 2},
            {"Family": "core3", "MaxLen": 3, "Starts": "zero", "Sample": 200, "workers": 3},
            {"Family": "trivia2", "MaxLen": 4, "Starts": "zero", "Sample": 150, "workers": 3},
            {"Family": "trivia3", "MaxLen": 3, "Starts": "all", "Sample": 150, "workers": 3},
            {"Family": "mods", "MaxLen": 4, "Starts": "zero", "Sample": 150, "workers": 3},
            {"Family": "stack", "MaxLen": 4, "Starts": "zero", "Sample": 400, "workers": 3},
            {"Family": "stack1", "MaxLen": 3, "Starts": "zero", "Sample": 0, "workers": 3, "style": "both"},
            {"Family": "stackdeep", "MaxLen": 3, "Starts": "zero", "Sample": 800, "workers": 3},
            {"Family": "tags", "MaxLen": 4, "Starts": "zero", "Sample": 250, "workers": 2},
            {"Family": "names", "MaxLen": 3, "Starts": "zero", "Sample": 400, "workers": 2},
            {"Family": "trivfx", "MaxLen": 4, "Starts": "zero", "Sample": 300, "workers": 3},
            {"Family": "ci", "MaxLen": 3, "Starts": "zero", "Sample": 150, "workers": 3},
            {"Family": "bounds", "MaxLen": 3, "Starts": "zero", "Sample": 250, "workers": 3},
            {"Family": "stacke", "MaxLen": 3, "Starts": "zero", "Sample": 400, "workers": 3},
            {"Family": "sqws", "MaxLen": 3, "Starts": "zero", "Sample": 0, "workers": 3, "style": "min"},
            {"Family": "sqcls", "MaxLen": 3, "Starts": "zero", "Sample": 400, "workers": 3, "style": "min"},
            {"Family": "pushalt", "MaxLen": 4, "Starts": "zero", "Sample": 0, "workers": 3},
            {"Family": "optsk", "MaxLen": 3, "Starts": "all", "Sample": 200, "workers": 3, "style": "min"},
            {"Family": "optinl", "MaxLen": 3, "Starts": "zero", "Sample": 150, "workers": 3, "style": "min"},
            {"Family": "optsq", "MaxLen": 3, "Starts": "zero", "Sample": 150, "workers": 3, "style": "min"},
        ]
    else:
        fams = [
            {"Family": "core2", "MaxLen": 4, "Starts": "all", "Sample": 0, "workers": 8},
            {"Family": "core3", "MaxLen": 4, "Starts": "zero", "Sample": 4000, "workers": 8},
            {"Family": "trivia2", "MaxLen": 4, "Starts": "all", "Sample": 0, "workers": 8},
            {"Family": "trivia3", "MaxLen": 4, "Starts": "zero", "Sample": 0, "workers": 8},
            {"Family": "mods", "MaxLen": 4, "Starts": "zero", "Sample": 0, "workers": 8},
            {"Family": "stack", "MaxLen": 4, "Starts": "all", "Sample": 0, "workers": 8},
            {"Family": "stack1", "MaxLen": 4, "Starts": "all", "Sample": 0, "workers": 8, "style": "both"},
            {"Family": "stackdeep", "MaxLen": 4, "Starts": "zero", "Sample": 20000, "workers": 8},
            {"Family": "tags", "MaxLen": 4, "Starts": "all", "Sample": 0, "workers": 8},
            {"Family": "names", "MaxLen": 4, "Starts": "zero", "Sample": 0, "workers": 8},
            {"Family": "trivfx", "MaxLen": 4, "Starts": "all", "Sample": 0, "workers": 8},
            {"Family": "ci", "MaxLen": 3, "Starts": "zero", "Sample": 0, "workers": 8},
            {"Family": "bounds", "MaxLen": 4, "Starts": "zero", "Sample": 0, "workers": 8},
            {"Family": "stacke", "MaxLen": 4, "Starts": "all", "Sample": 0, "workers": 8},
            {"Family": "sqws", "MaxLen": 4, "Starts": "zero", "Sample": 0, "workers": 8, "style": "min"},
            {"Family": "sqesc", "MaxLen": 3, "Starts": "zero", "Sample": 0, "workers": 8, "style": "min"},
            {"Family": "sqcls", "MaxLen": 4, "Starts": "zero", "Sample": 0, "workers": 8, "style": "min"},
            {"Family": "pushalt", "MaxLen": 5, "Starts": "zero", "Sample": 0, "workers": 8},
            {"Family": "optsk", "MaxLen": 4, "Starts": "all", "Sample": 0, "workers": 8, "style": "min"},
            {"Family": "optinl", "MaxLen": 4, "Starts": "zero", "Sample": 0, "workers": 8, "style": "min"},
            {"Family": "optsq", "MaxLen": 3, "Starts": "zero", "Sample": 0, "workers": 8, "style": "min"},
        ]
    for f in fams:
        f["gen_twice"] = True
        replay.run_family(rep, f, "geninterp", modes)
    generation_only(rep, pest)
    rep.rule = (
        "every family of spec/Families.tla (core operators, trivia configurations, modifier chains, stack operations in backtracking contexts, tags) x inputs to MaxLen "
        "x start positions; a case = (grammar, input, start) compared interpreter vs generated for optimizer off and on; non-trivial = reference outcome is a successful parse"
    )
    rep.exhaustive = False
    rep.assumptions = ["relational check: the oracle is the interpreter on the same Parser; PestSem's outcome is attached to a violation for diagnosis only"]
    return rep.finish()
