"""SpecVsSuite - guarding the oracle itself.

Every (grammar, rule, input) the repository's passing suite exercises is re-run in the four execution modes; an outcome that
is identical in all four modes is what the pest-derived tests assert (or at least is contested by no configuration): those
*blessed* outcomes must be accepted by PestSem (TLC, spec/ApiTrace.tla).  A rejected blessed event means the SPECIFICATION
mis-reads pest's semantics: that is a machinery failure (exit 2) of every check that uses PestSem, never a verdict.
"""

from __future__ import annotations

from . import apitrace
from . import common as C
from . import corpus
from . import modes as M


def run(rep=None, max_len: int = 700) -> dict:
    pest = C.import_pest()
    samples = corpus.record_suite()
    by_g: dict[str, list] = {}
    for s in samples:
        by_g.setdefault(s["grammar"], []).append(s)
    grammars, events, skipped, contested = {}, [], 0, 0
    for gi, (gtext, ss) in enumerate(sorted(by_g.items())):
        charset = {ord(c) for s in ss for c in s["input"]}
        g = apitrace.export_grammar(pest, gtext, charset)
        if g is None or not apitrace.refs_defined(g):
            skipped += len(ss)
            continue
        gid = f"g{gi}"
        grammars[gid] = g
        parsers = {m: M.build(pest, gtext, m)[0] for m in M.MODES}
        for s in ss:
            if len(s["input"]) > max_len or s["rule"] not in g:
                skipped += 1
                continue
            obs = [M.run_parse(pest, parsers[m], s["rule"], s["input"], s["start"], tags=False) for m in M.MODES]
            proj = [{"ok": o.get("ok"), "pairs": o.get("pairs")} for o in obs]
            if any(p != proj[0] for p in proj) or proj[0]["ok"] is None:
                contested += 1
                continue
            events.append({"gid": gid, "rule": s["rule"], "input": s["input"], "start": s["start"], "ok": proj[0]["ok"], "pairs": proj[0]["pairs"] or []})
    verdicts, st = apitrace.validate(grammars, events, "specvssuite")
    bad = [(e, v) for e, v in zip(events, verdicts) if v != "accept"]
    info = {"suite_samples": len(samples), "blessed_events_validated": len(events), "contested_between_modes": contested, "skipped": skipped, "rejected": len(bad)}
    if rep is not None:
        rep.add_tlc(st, f"ApiTrace/SpecVsSuite ({len(events)} blessed suite events)")
        rep.extra["spec_vs_suite"] = info
    if bad:
        e, v = bad[0]
        raise C.MachineryError(f"SpecVsSuite: PestSem rejects {len(bad)} outcome(s) the repository's suite blesses, e.g. rule {e['rule']!r} on {e['input']!r}: {v} (observed {e['ok']}, {e['pairs']}) - the specification mis-reads the semantics")
    if len(events) < 100:
        raise C.MachineryError(f"SpecVsSuite validated only {len(events)} events: {info}")
    return info
