"""Execution modes of python-pest and projection of results to plain data."""

from __future__ import annotations

import signal
import threading
import types
from contextlib import contextmanager

from . import common as C

MODES = ("interp", "opt", "gen", "optgen")
TIMEOUTS = 0  # parses cut off by the watchdog in this process (each is reported; callers stop hammering a parser that hangs)


class Timeout(Exception):
    pass


@contextmanager
def watchdog(seconds: float):
    if threading.current_thread() is not threading.main_thread():
        yield  # signals only work in the main thread; scheduled threads are bounded by join(timeout)
        return

    def _h(signum, frame):  # noqa: ARG001
        raise Timeout()

    old = signal.signal(signal.SIGALRM, _h)
    signal.setitimer(signal.ITIMER_REAL, seconds)
    try:
        yield
    finally:
        signal.setitimer(signal.ITIMER_REAL, 0)
        signal.signal(signal.SIGALRM, old)


class Generated:
    """A generated module exec'd in memory (what tests/conftest.GeneratedParser does)."""

    def __init__(self, code: str, name: str = "verif_generated"):
        self.code = code
        module = types.ModuleType(name)
        exec(compile(code, filename=f"{name}.py", mode="exec"), module.__dict__)  # noqa: S102
        self.module = module
        self._parse = module.parse
        self._wrapper = module.Parser() if hasattr(module, "Parser") else None  # the drop-in class the module also offers
        self._n = 0

    def parse(self, rule, text, *, start_pos=0):
        # both public entry points of a generated module are exercised: module.parse() and module.Parser().parse(), alternately
        self._n += 1
        if self._wrapper is not None and self._n % 2 == 0:
            return self._wrapper.parse(rule, text, start_pos=start_pos)
        return self._parse(rule, text, start_pos=start_pos)


def optimizer_for(pest, passes=None):
    """A fresh Optimizer (never the shared DEFAULT_OPTIMIZER instance's log)."""
    if passes is None:
        return pest.Optimizer(list(pest.DEFAULT_OPTIMIZER_PASSES))
    by_name = {p.name: p for p in pest.DEFAULT_OPTIMIZER_PASSES}
    return pest.Optimizer([by_name[n] for n in passes])


def build(pest, grammar: str, mode: str, passes=None):
    """Return (parser_like, base_parser). mode in MODES; `passes` = list of pass names for opt modes."""
    opt = optimizer_for(pest, passes) if mode in ("opt", "optgen") else None
    with watchdog(30):  # loading / optimizing / generating must terminate; a Timeout here is reported by the caller as a build failure
        p = pest.Parser.from_grammar(grammar, optimizer=opt)
        if mode in ("gen", "optgen"):
            return Generated(p.generate()), p
    return p, p


_LAST_TEXT = None


def fresh_copy(text: str) -> str:
    """A new string object equal to `text`.  The previous copy is released at this moment and the new one is the next object of
    that size to be allocated, so - for texts of equal length - it lands at the address the previous text had (CPython hands a
    freed block to the next request of its size class).  The copy lives until the next call."""
    global _LAST_TEXT  # noqa: PLW0603
    _LAST_TEXT = None
    if len(text) > 1:
        text = text.encode("utf-8", "surrogatepass").decode("utf-8", "surrogatepass")  # intermediate bytes object: another size class
    _LAST_TEXT = text
    return text


def proj_pair(p):
    return [p.name, p.start, p.end, p.tag, [proj_pair(c) for c in p.children]]


def proj_pair_notag(p):
    return [p.name, p.start, p.end, [proj_pair_notag(c) for c in p.children]]


def run_parse(pest, parser, rule: str, text: str, start: int = 0, *, tags: bool = True, timeout: float = 5.0, keep=False):
    """Run one parse; total: returns a plain-data observation.

    {"ok": True, "pairs": [...]} | {"ok": False, "fpos": p} | {"exc": "Type: msg"} | {"timeout": True}
    """
    # Every call gets its OWN copy of the input, dropped when the call is over: consecutive calls then tend to see different
    # texts at the same address, as an application parsing one temporary string after another does (anything remembered
    # between calls by id(text) shows up as a wrong result instead of staying hidden behind a corpus that is kept alive).
    if not keep:
        text = fresh_copy(text)
    try:
        with watchdog(timeout):
            r = parser.parse(rule, text, start_pos=start)
        out = {"ok": True, "pairs": [proj_pair(p) if tags else proj_pair_notag(p) for p in r]}
        if keep:
            out["_pairs"] = r
        return out
    except pest.PestParsingError as e:
        out = {"ok": False, "fpos": e.state.furthest_pos}
        if keep:
            out["_err"] = e.with_traceback(None)  # no cycle through this frame: the error (and the input it holds) goes when the caller drops it
        return out
    except Timeout:
        global TIMEOUTS  # noqa: PLW0603
        TIMEOUTS += 1
        return {"timeout": True}
    except RecursionError:
        return {"exc": "RecursionError"}
    except Exception as e:  # noqa: BLE001
        return {"exc": f"{type(e).__name__}: {e}"[:200]}
