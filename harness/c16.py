"""C16 - parsing from start_pos = k equals parsing the suffix, shifted by k.

Spec level: RefShift (spec/Families.tla) - TLC checks on every enumerated SOI-free case that the reference outcome at
start k equals the outcome on the suffix shifted by k.  Code level (relational): for every text and k the library is run at
start_pos = k and on text[k:], in four modes, trees and failure positions compared after shifting; and the same suffix is
parsed behind a different prefix of equal length ("characters before start_pos are never consulted").
"""

from __future__ import annotations

from . import common as C
from . import replay

INV = ["RefTreeWF", "RefSingleRoot", "RefShift"]


def run(tier: str) -> int:
    rep = C.Report("C16", tier)
    rep.distinct = None
    thorough = tier == "thorough"
    modes = ("interp", "gen", "opt", "optgen")
    if not thorough:
        fams = [
            {"Family": "core2nosoi", "MaxLen": 3, "Starts": "all", "Sample": 300, "workers": 3, "invariants": INV},
            {"Family": "trivia2", "MaxLen": 3, "Starts": "all", "Sample": 200, "workers": 3, "invariants": INV},
            {"Family": "mods", "MaxLen": 3, "Starts": "all", "Sample": 150, "workers": 3, "invariants": INV},
            {"Family": "stack", "MaxLen": 3, "Starts": "all", "Sample": 500, "workers": 3, "invariants": INV},
            {"Family": "optsk", "MaxLen": 3, "Starts": "all", "Sample": 250, "workers": 3, "invariants": INV, "style": "min"},
            {"Family": "optsq", "MaxLen": 3, "Starts": "all", "Sample": 200, "workers": 3, "invariants": INV, "style": "min"},
        ]
    else:
        fams = [
            {"Family": "core2nosoi", "MaxLen": 4, "Starts": "all", "Sample": 0, "workers": 8, "invariants": INV},
            {"Family": "core3nosoi", "MaxLen": 3, "Starts": "all", "Sample": 4000, "workers": 8, "invariants": INV},
            {"Family": "trivia2", "MaxLen": 4, "Starts": "all", "Sample": 0, "workers": 8, "invariants": INV},
            {"Family": "mods", "MaxLen": 4, "Starts": "all", "Sample": 0, "workers": 8, "invariants": INV},
            {"Family": "stack", "MaxLen": 4, "Starts": "all", "Sample": 0, "workers": 8, "invariants": INV},
            {"Family": "optsk", "MaxLen": 4, "Starts": "all", "Sample": 0, "workers": 8, "invariants": INV, "style": "min"},
            {"Family": "optsq", "MaxLen": 3, "Starts": "all", "Sample": 0, "workers": 8, "invariants": INV, "style": "min"},
        ]
    for f in fams:
        replay.run_family(rep, f, "shift", modes)
    rep.rule = "SOI-free families x all texts to MaxLen x every k in 0..len(text) x four modes; a case = (grammar, text, k); non-trivial = reference outcome is a successful parse"
    rep.exhaustive = False
    rep.assumptions = ["relational check code-vs-code; TLC checks the same relation on the reference semantics (RefShift)"]
    return rep.finish()
