"""Code -> spec: record ParserState.checkpoint/ok/restore during real parses (interpreter and generated modules) and let TLC
validate the checkpoint discipline (spec/StateTrace.tla).  No source hook: the three methods and __init__ are wrapped at
class level from the outside, only while recording (PEST_VERIF_TRACE=1)."""

from __future__ import annotations

import json
import os
import re
from contextlib import contextmanager

from . import common as C
from . import modes as M

_RE_REJ = re.compile(r'<<"REJECTED", (\d+)>>')


@contextmanager
def recording(pest, sink: list, raw: bool = False):
    from pest.state import ParserState  # noqa: PLC0415

    os.environ["PEST_VERIF_TRACE"] = "1"
    vals: dict[str, int] = {}

    def view(st):
        if raw:  # the strings themselves, as code point lists (comparison with PestVM's event log)
            return {"pos": st.pos, "ustk": [[ord(c) for c in x] for x in st.user_stack], "rdepth": len(st.rule_stack), "adepth": int(st.atomic_depth)}
        return {"pos": st.pos, "ustk": [vals.setdefault(x, len(vals) + 1) for x in st.user_stack], "rdepth": len(st.rule_stack), "adepth": int(st.atomic_depth)}

    orig = {}

    def wrap(name):
        f = getattr(ParserState, name)
        orig[name] = f

        def w(self):
            b = view(self)
            try:
                return f(self)
            finally:
                a = view(self)
                sink.append({"op": name, **a, "bpos": b["pos"], "bustk": b["ustk"], "brdepth": b["rdepth"], "badepth": b["adepth"]})

        setattr(ParserState, name, w)

    init = ParserState.__init__
    orig["__init__"] = init

    def new_init(self, *a, **k):
        init(self, *a, **k)
        sink.append({"op": "new", "pos": self.pos, "ustk": [], "rdepth": 0, "adepth": 0, "bpos": 0, "bustk": [], "brdepth": 0, "badepth": 0})

    ParserState.__init__ = new_init
    for n in ("checkpoint", "ok", "restore"):
        wrap(n)
    try:
        yield
    finally:
        for n, f in orig.items():
            setattr(ParserState, n, f)
        os.environ.pop("PEST_VERIF_TRACE", None)


def traced_parse(pest, parser, rule, text, start, sink):
    o = M.run_parse(pest, parser, rule, text, start)
    if "ok" in o:  # returned Pairs or raised PestParsingError: every checkpoint must have been consumed
        sink.append({"op": "end", "pos": 0, "ustk": [], "rdepth": 0, "adepth": 0, "bpos": 0, "bustk": [], "brdepth": 0, "badepth": 0})
    return o


def validate(rep, events: list[dict], tag: str, contexts: dict[int, str] | None = None, chunk: int = 120000):
    """events -> violations for rejected parses.  contexts: line index of a 'new' event -> description."""
    d = C.OUT / "traces"
    d.mkdir(parents=True, exist_ok=True)
    chunks, cur, base = [], [], 0
    for i, e in enumerate(events):
        if e["op"] == "new" and len(cur) >= chunk:
            chunks.append((base, cur))
            base, cur = i, []
        cur.append(e)
    if cur:
        chunks.append((base, cur))
    n = 0
    for ci, (base, ch) in enumerate(chunks):
        f = d / f"{tag}_{ci}.ndjson"
        with f.open("w") as fh:
            for e in ch:
                fh.write(json.dumps(e) + "\n")
        rejected, verdict = [], []

        def on_line(line):
            m = _RE_REJ.match(line)
            if m:
                rejected.append(int(m[1]))
            if "TRACE_RESULT" in line:
                verdict.append(line)

        st = C.run_tlc("StateTrace", C.SPEC / "StateTrace.cfg", on_line=on_line, workers=1, env={"TRACE_FILE": str(f)}, tag=f"StateTrace_{tag}_{ci}", prefixes=("<<",), xmx="6g", timeout=1800)
        if st.error or not verdict:
            raise C.MachineryError(f"StateTrace failed on {f}: {st.error}\n" + "\n".join(st.tail[-20:]))
        rep.add_tlc(st, f"StateTrace {tag} ({len(ch)} events)")
        n += len(ch)
        for ln in rejected[:10]:
            seg = []
            for e in ch[ln - 1 : ln + 60]:
                seg.append({k: v for k, v in e.items()})
                if e["op"] == "end":
                    break
            ctx = (contexts or {}).get(base + ln - 1, "")
            rep.violation({"kind": "checkpoint-discipline", "context": ctx, "trace_file": str(f), "parse_begins_at_line": ln, "events": seg[:40]}, f"checkpoint discipline violated during a real parse {ctx}: {[(e['op'], e['pos'], e['ustk']) for e in seg[:14]]}")
        if not rejected:
            f.unlink()
    return n
