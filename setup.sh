#!/bin/sh
# Offline setup: nothing to build; verify the tools the checks need are present.
set -e
cd "$(dirname "$0")"
mkdir -p out evidence
java -version >/dev/null 2>&1
test -f /opt/veriftools/tla/tla2tools.jar
/venv/bin/python -c "import regex, json, sys; sys.path.insert(0, '/repo/src'); import pest"
echo setup ok
