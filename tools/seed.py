#!/venv/bin/python
"""Development tool for seeded changes (never run by a registered check).

  seed.py confirm <PROP> <i> [name]   confirm /tmp/wt_out/<PROP>/patch_<i>.diff in the scratch worktree /tmp/wt/<PROP>
                                       (suite passes with it, demo fails with it and passes without) and store it as
                                       /verif/seeded/<PROP>_<name or i>/{patch.diff, demo.py, meta.json}
  seed.py run <seed_id> [C..]          apply the patch to a scratch worktree of /repo (/tmp/repo_seed; the checks read it through
                                       VERIF_REPO), run the quick checks (default: the seed's property), remove the worktree, and
                                       record which checks reported a violation in seeded/<seed_id>/detect.json

/repo itself is never modified: an earlier version patched /repo in place and undid the patch afterwards; when a session was cut off
in between, seed C15_9 stayed applied and was committed with the tree (DESIGN.md I.7).
"""
import json
import os
import re
import shutil
import subprocess
import sys
import time

VERIF = "/verif"


def sh(cmd, cwd=None, env=None, timeout=3600):
    e = dict(os.environ)
    e.update(env or {})
    r = subprocess.run(cmd, shell=True, cwd=cwd, env=e, capture_output=True, text=True, timeout=timeout)
    return r.returncode, r.stdout + r.stderr


def confirm(prop, i, name=None):
    wt, out = f"/tmp/wt/{prop}", f"/tmp/wt_out/{prop}"
    patch, demo, meta = f"{out}/patch_{i}.diff", f"{out}/demo_{i}.py", f"{out}/meta_{i}.json"
    env = {"PYTHONPATH": f"{wt}/src", "PEST_SRC": f"{wt}/src", "PEST_ROOT": wt}
    sh("git checkout -- . && git clean -fdq", cwd=wt)
    rc0, o0 = sh(f"/venv/bin/python {demo}", cwd=wt, env=env)
    rca, oa = sh(f"git apply {patch}", cwd=wt)
    assert rca == 0, oa
    rct, ot = sh("/venv/bin/python -m pytest -q -p no:cacheprovider --continue-on-collection-errors --timeout=900 2>&1 | tail -3", cwd=wt, env=env)
    sh("git checkout -- examples/calculator/parser.py examples/calculator/grammar_encoded_prec_parser.py examples/jsonpath/parser.py", cwd=wt)
    rc1, o1 = sh(f"/venv/bin/python {demo}", cwd=wt, env=env)
    files = sh("git diff --name-only", cwd=wt)[1].split()
    sh("git checkout -- . && git clean -fdq", cwd=wt)
    passed = re.search(r"(\d+) passed", ot)
    ok = rc0 == 0 and rc1 != 0 and passed and int(passed[1]) == 678 and "failed" not in ot
    print(f"{prop}_{i}: demo clean rc={rc0}, with patch rc={rc1}, suite: {ot.strip().splitlines()[-1] if ot.strip() else ''} -> {'CONFIRMED' if ok else 'NOT CONFIRMED'}")
    if not ok:
        print(o0[-500:], o1[-500:])
        return False
    sid = f"{prop}_{name or i}"
    d = f"{VERIF}/seeded/{sid}"
    os.makedirs(d, exist_ok=True)
    shutil.copy(patch, f"{d}/patch.diff")
    shutil.copy(demo, f"{d}/demo.py")
    m = json.load(open(meta)) if os.path.exists(meta) else {}
    m.update({"property": prop, "files_touched": files, "confirmed": {"demo_exit_clean_tree": rc0, "demo_exit_with_patch": rc1, "suite_with_patch": ot.strip().splitlines()[-1], "how": "tools/seed.py confirm in a scratch worktree: demo on the clean tree, git apply, full suite, demo, git checkout"}, "source": "independent sub-agent given only the property text and its own worktree"})
    json.dump(m, open(f"{d}/meta.json", "w"), indent=1)
    return True


SCRATCH = "/tmp/repo_seed"


def run(sid, checks):
    """The patch is applied to a scratch worktree of /repo (checks run with VERIF_REPO pointing at it); /repo is never touched."""
    d = f"{VERIF}/seeded/{sid}"
    meta = json.load(open(f"{d}/meta.json"))
    checks = checks or [meta["property"]]
    sh(f"git worktree remove --force {SCRATCH}", cwd="/repo")
    rc, o = sh(f"git worktree add --detach {SCRATCH} HEAD", cwd="/repo")
    assert rc == 0, o
    target, env = SCRATCH, {"VERIF_REPO": SCRATCH}
    res = {}
    try:
        rc, o = sh(f"git apply {d}/patch.diff || git apply -3 {d}/patch.diff", cwd=target)
        assert rc == 0, o
        for c in checks:
            t = time.time()
            rc, o = sh(f"./check {c} --tier quick", cwd=VERIF, timeout=3600, env=env)
            viol = [ln for ln in o.splitlines() if ln.startswith("VIOLATION")]
            first = next((ln for ln in o.splitlines() if ln.startswith("  ") and viol), "")
            res[c] = {"exit": rc, "violations_reported": len(viol), "first": first.strip()[:300], "wall_s": round(time.time() - t, 1)}
            print(f"  {sid} vs {c}: exit={rc} VIOLATION lines={len(viol)} {first.strip()[:160]}")
    finally:
        sh(f"git worktree remove --force {SCRATCH}", cwd="/repo")
        sh("git worktree prune", cwd="/repo")
    # evidence files were rewritten by the mutant run: restore the committed ones
    sh("git checkout -- evidence", cwd=VERIF)
    prev = {}
    if os.path.exists(f"{d}/detect.json"):
        prev = json.load(open(f"{d}/detect.json"))
    prev.update(res)
    json.dump(prev, open(f"{d}/detect.json", "w"), indent=1)
    return res


HEADER = """# Seeded changes

Each directory holds `patch.diff` (apply with `git apply` in a scratch worktree of /repo - never in /repo itself), `demo.py` (exits non-zero with the change, 0 without; set `PEST_SRC=/repo/src`, `PEST_ROOT=/repo`), `meta.json` (what it breaks, what it needs to manifest, how it was confirmed) and `detect.json` (quick checks run against it with `tools/seed.py run`). All were written by independent sub-agents given only the property text and a scratch worktree, and confirmed in a scratch worktree (suite still 678 passed; demo fails with / passes without). `_1`, `_2`: first round; `_3`, `_4`: second round (other sub-agents, asked for two different parts of the code). Patches are against the tree as it was when they were confirmed; later `fix:` commits may make an older patch need `git apply -3`.

| seed | property | files | what it breaks | detected by (quick tier) |
|---|---|---|---|---|
"""


def table():
    rows = []
    for sid in sorted(os.listdir(f"{VERIF}/seeded")):
        d = f"{VERIF}/seeded/{sid}"
        if not os.path.isdir(d):
            continue
        m = json.load(open(f"{d}/meta.json"))
        det = json.load(open(f"{d}/detect.json")) if os.path.exists(f"{d}/detect.json") else {}
        by = ", ".join(c for c, r in det.items() if r.get("violations_reported")) or "NOT DETECTED"
        what = str(m.get("what_it_breaks", "")).replace("|", "/").replace("\n", " ")[:150]
        rows.append(f"| {sid} | {m['property']} | {', '.join(m.get('files_touched', []))} | {what} | {by} |")
    open(f"{VERIF}/seeded/README.md", "w").write(HEADER + "\n".join(rows) + "\n")
    print(len(rows), "rows;", sum("NOT DETECTED" in r for r in rows), "not detected")


if __name__ == "__main__":
    if sys.argv[1] == "table":
        table()
    elif sys.argv[1] == "confirm":
        sys.exit(0 if confirm(*sys.argv[2:]) else 1)
    elif sys.argv[1] == "run":
        run(sys.argv[2], sys.argv[3:])
